//! Worker-side progress tracking: a watchdog that turns "no progress" into a
//! reported hang, and a case file that lets the parent attribute a crash.

use std::io::{Seek, SeekFrom, Write};
use std::sync::atomic::{AtomicU64, Ordering};
use std::sync::Mutex;

static TICKS: AtomicU64 = AtomicU64::new(0);
static CASE: Mutex<String> = Mutex::new(String::new());
static CASE_FILE: Mutex<Option<std::fs::File>> = Mutex::new(None);

pub fn tick() {
    TICKS.fetch_add(1, Ordering::Relaxed);
}

/// Record the coarse unit of work that is about to start.
pub fn set_case(f: impl FnOnce() -> String) {
    let s = f();
    if let Ok(mut cf) = CASE_FILE.lock() {
        if let Some(file) = cf.as_mut() {
            let _ = file.seek(SeekFrom::Start(0));
            let _ = file.write_all(s.as_bytes());
            let _ = file.set_len(s.len() as u64);
        }
    }
    if let Ok(mut c) = CASE.lock() {
        *c = s;
    }
    tick();
}

pub fn open_case_file(path: &str) {
    if let Some(dir) = std::path::Path::new(path).parent() {
        let _ = std::fs::create_dir_all(dir);
    }
    if let Ok(f) = std::fs::File::create(path) {
        *CASE_FILE.lock().unwrap() = Some(f);
    }
}

/// Exit code 3 + a line `H <case>` when no tick happens for `limit_s` seconds.
pub fn start_watchdog(limit_s: u64) {
    std::thread::spawn(move || {
        let mut last = TICKS.load(Ordering::Relaxed);
        let mut idle = 0u64;
        loop {
            std::thread::sleep(std::time::Duration::from_millis(500));
            let now = TICKS.load(Ordering::Relaxed);
            if now == last {
                idle += 1;
                if idle >= limit_s * 2 {
                    let case = CASE.lock().map(|c| c.clone()).unwrap_or_default();
                    println!("H {}", case);
                    let _ = std::io::stdout().flush();
                    std::process::exit(3);
                }
            } else {
                idle = 0;
                last = now;
            }
        }
    });
}
