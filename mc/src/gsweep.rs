//! Exhaustive sweep over canonical multigraph shapes x search configurations
//! (C04-C10). The shapes are the adjacency states reachable with `connect`
//! alone (which is all of them, removals never reorder); they are enumerated
//! with the real code, edges are labelled 1..L in history order so that every
//! arc is individually recognisable in results and filters.

use crate::core::*;
use crate::flavor::*;
use crate::model::Bad;
use crate::refmodel::*;
use crate::report::*;
use crate::seqx::Out;
use serde::{Deserialize, Serialize};
use serde_json::{json, Value};
use std::collections::{BTreeSet, HashSet};

pub const A_EXIST: u32 = 1;
pub const A_VALID: u32 = 2;
pub const A_ACCEPTED: u32 = 4;
pub const A_SHORTEST: u32 = 8;
pub const A_SIMPLE: u32 = 16;
pub const A_PFS: u32 = 32;
pub const A_FOREACH: u32 = 64;
pub const A_DFS_ORDER: u32 = 128;
pub const A_DIRECTION: u32 = 256;

fn bad<T>(code: &str, detail: String) -> Result<T, Bad> {
    Err((code.to_string(), detail))
}

#[derive(Serialize, Deserialize, Clone, Debug)]
pub struct GCase {
    pub n: usize,
    pub conns: Vec<(K, K)>,
    pub vals: Vec<i8>,
    pub root: K,
    pub cfg: Cfg,
    pub reject: Vec<Arc3>,
    /// "diff" = C08 differential against the reversed graph
    #[serde(default)]
    pub mode: String,
    /// how the graph was reached (see `build_world`)
    #[serde(default)]
    pub churn: u8,
    /// other searches interfering with the checked one (see `interf_text`)
    #[serde(default)]
    pub interf: u8,
}

impl GCase {
    pub fn program(&self, flavour: &str) -> String {
        let mut s = format!("{}: nodes 0..{} values {:?}; {}", flavour, self.n, self.vals, churn_text(self.churn));
        for (i, (u, v)) in self.conns.iter().enumerate() {
            s += &format!("n{}.connect(&n{}, {}); ", u, v, i + 1);
        }
        s += interf_text(self.interf);
        s += &format!("n{}.{}", self.root, self.cfg.describe());
        if self.cfg.meth == Meth::Filter {
            s += &format!(" with filter rejecting {:?}", self.reject);
        }
        s
    }
}

/// Connect-only histories reaching every distinct adjacency shape with <= max_l edges.
pub fn shapes<F: Fl>(n: usize, max_l: usize) -> Vec<Vec<(K, K)>> {
    let mut seen: HashSet<WorldObs> = HashSet::new();
    let mut out: Vec<Vec<(K, K)>> = Vec::new();
    let w0 = World::<F>::new(n);
    seen.insert(w0.observe_raw());
    out.push(vec![]);
    let mut cur = 0;
    while cur < out.len() {
        let h = out[cur].clone();
        cur += 1;
        if h.len() >= max_l {
            continue;
        }
        for u in 0..n as K {
            for v in 0..n as K {
                let w = World::<F>::new(n);
                for (a, b) in &h {
                    F::connect(&w.nodes[*a as usize], &w.nodes[*b as usize], 0);
                }
                F::connect(&w.nodes[u as usize], &w.nodes[v as usize], 0);
                let o = w.observe_raw();
                if seen.insert(o) {
                    let mut nh = h.clone();
                    nh.push((u, v));
                    out.push(nh);
                }
            }
        }
    }
    out
}

/// Storage state of the model: per node (targets of its outbound list, sources of its inbound list).
type St = Vec<(Vec<K>, Vec<K>)>;

fn canon(st: &St) -> St {
    let n = st.len();
    // isomorphism invariant per node; only permutations that respect it are tried
    let inv: Vec<(usize, usize, usize)> = (0..n).map(|u| (st[u].0.len(), st[u].1.len(), st[u].0.iter().filter(|v| **v as usize == u).count())).collect();
    let mut nodes: Vec<usize> = (0..n).collect();
    nodes.sort_by_key(|u| inv[*u]);
    // groups of equal invariant occupy consecutive target positions
    let mut best: Option<St> = None;
    fn rec(pos: usize, nodes: &Vec<usize>, inv: &Vec<(usize, usize, usize)>, used: &mut Vec<bool>, perm: &mut Vec<usize>, st: &St, best: &mut Option<St>) {
        let n = nodes.len();
        if pos == n {
            // perm[old] = new
            let mut out: St = vec![(vec![], vec![]); n];
            for old in 0..n {
                out[perm[old]] = (st[old].0.iter().map(|v| perm[*v as usize] as K).collect(), st[old].1.iter().map(|v| perm[*v as usize] as K).collect());
            }
            if best.as_ref().map_or(true, |b| out < *b) {
                *best = Some(out);
            }
            return;
        }
        // position `pos` must be filled by an unused node with the invariant of nodes[pos]
        let want = inv[nodes[pos]];
        for &u in nodes.iter() {
            if !used[u] && inv[u] == want {
                used[u] = true;
                perm[u] = pos;
                rec(pos + 1, nodes, inv, used, perm, st, best);
                used[u] = false;
            }
        }
    }
    rec(0, &nodes, &inv, &mut vec![false; n], &mut vec![0; n], st, &mut best);
    best.unwrap()
}

/// Connect-only histories reaching every adjacency shape with <= max_l edges
/// **up to renaming of the nodes** (sound for sweeps that range over all
/// roots, targets and filters and do not depend on node values). Enumerated on
/// the storage model (connect appends to the source's outbound and the
/// target's inbound list, which C03 establishes for the real code).
pub fn shapes_iso(n: usize, max_l: usize) -> Vec<Vec<(K, K)>> {
    let mut seen: HashSet<St> = HashSet::new();
    let st0: St = vec![(vec![], vec![]); n];
    seen.insert(canon(&st0));
    let mut out: Vec<(Vec<(K, K)>, St)> = vec![(vec![], st0)];
    let mut cur = 0;
    while cur < out.len() {
        let (h, st) = out[cur].clone();
        cur += 1;
        if h.len() >= max_l {
            continue;
        }
        for u in 0..n {
            for v in 0..n {
                let mut s2 = st.clone();
                s2[u].0.push(v as K);
                s2[v].1.push(u as K);
                if seen.insert(canon(&s2)) {
                    let mut nh = h.clone();
                    nh.push((u as K, v as K));
                    out.push((nh, s2));
                }
            }
        }
    }
    out.into_iter().map(|x| x.0).collect()
}

thread_local! {
    /// How `build_world` reaches the shape: 0 = plain connects; 1..=3 = through a
    /// history with removals (see `build_world`).
    pub static CHURN: std::cell::Cell<u8> = const { std::cell::Cell::new(0) };
}
pub fn set_churn(c: u8) {
    CHURN.with(|x| x.set(c));
}
pub fn churn() -> u8 {
    CHURN.with(|x| x.get())
}
pub fn churn_text(c: u8) -> &'static str {
    match c {
        1 => "after connecting every ordered pair (value 99) and disconnecting all of them again, ",
        2 => "after connecting every ordered pair (value 99) and isolating every node, ",
        3 => "with a temporary edge between an otherwise unconnected pair connected before and disconnected after every listed connect, ",
        _ => "",
    }
}

/// The graph of a connect history. With churn mode 0 it is built by exactly
/// those connects. The other modes reach the *same observable adjacency* from a
/// non-initial state (differential oracle: equal adjacency must mean equal
/// behaviour, whatever the history): 1 = a complete mesh incl. self-loops is
/// connected and disconnected edge by edge first; 2 = the mesh is torn down with
/// isolate; 3 = a temporary edge on a pair the shape does not use is connected
/// before and disconnected after every connect of the history. A churned build
/// whose adjacency differs from the plain build is C03's business, not the
/// caller's: the plain build is returned (callers count it via `churn_fell_back`).
pub fn build_world<F: Fl>(vals: &[i8], conns: &[(K, K)]) -> World<F> {
    let plain = || {
        let w = World::<F>::with_vals(vals);
        for (i, (u, v)) in conns.iter().enumerate() {
            F::connect(&w.nodes[*u as usize], &w.nodes[*v as usize], (i + 1) as E);
        }
        w
    };
    let mode = churn();
    if mode == 0 {
        return plain();
    }
    let n = vals.len();
    let w = World::<F>::with_vals(vals);
    let built = guarded(|| {
        if mode == 1 || mode == 2 {
            for u in 0..n {
                for v in 0..n {
                    F::connect(&w.nodes[u], &w.nodes[v], 99);
                }
            }
            if mode == 1 {
                for u in (0..n).rev() {
                    for v in 0..n {
                        while F::disconnect(&w.nodes[u], v as K).is_ok() {}
                    }
                }
            } else {
                for u in 0..n {
                    F::isolate(&w.nodes[u]);
                }
            }
        }
        let free: Option<(usize, usize)> = if mode == 3 {
            let used = |a: usize, b: usize| conns.iter().any(|(u, v)| (*u as usize, *v as usize) == (a, b) || (!F::DIRECTED && (*v as usize, *u as usize) == (a, b)));
            (0..n).flat_map(|a| (0..n).map(move |b| (a, b))).filter(|(a, b)| !used(*a, *b)).last()
        } else {
            None
        };
        for (i, (u, v)) in conns.iter().enumerate() {
            if let Some((a, b)) = free {
                F::connect(&w.nodes[a], &w.nodes[b], 100);
            }
            F::connect(&w.nodes[*u as usize], &w.nodes[*v as usize], (i + 1) as E);
            if let Some((a, b)) = free {
                let _ = F::disconnect(&w.nodes[a], b as K);
            }
        }
    });
    let p = plain();
    let same = built.is_ok() && matches!((w.observe(), p.observe()), (Ok(a), Ok(b)) if a == b);
    if same {
        w
    } else {
        CHURN_FELL_BACK.with(|c| c.set(c.get() + 1));
        p
    }
}
thread_local! {
    pub static CHURN_FELL_BACK: std::cell::Cell<u64> = const { std::cell::Cell::new(0) };
}

pub type Trace = Vec<(Arc3, bool)>;

thread_local! {
    /// Other searches interfering with the checked one: 0 = none; 1 = every
    /// kind of search is run from every node of the same graph BEFORE the
    /// checked call (marks, stamps or links left in the nodes by an earlier
    /// search); 2 = the closure of the checked call itself runs every kind of
    /// search from the target of the edge it was handed (a nested search
    /// sharing per-node state with the running one). Searches do not change
    /// the graph, so every oracle applies unchanged.
    pub static INTERF: std::cell::Cell<u8> = const { std::cell::Cell::new(0) };
}
pub fn set_interf(c: u8) {
    INTERF.with(|x| x.set(c));
}
pub fn interf() -> u8 {
    INTERF.with(|x| x.get())
}
pub fn interf_text(c: u8) -> &'static str {
    match c {
        1 => "[first every kind of search (with and without target, cycle searches, transposed) is run from every node] ",
        2 => "[the closure also looks up the root's key at both end points of the edge it is handed and runs every kind of search from the edge's target] ",
        3 => "[the closure raises the value of the node the edge leads to by 1] ",
        4 => "[the closure lowers the value of the node the edge leads to by 1] ",
        _ => "",
    }
}

fn all_searches_from<F: Fl>(nd: &F::Node, n: usize, with_targets: bool) {
    for kind in ALL_KINDS {
        for transpose in [false, true] {
            if transpose && !F::DIRECTED {
                continue;
            }
            let res = if kind.is_order() { ResK::Nodes } else { ResK::Path };
            let cfg = Cfg { kind, transpose, target: None, meth: Meth::None, res, alt: false, tt: false };
            let _ = F::search(nd, &cfg, &mut |_| true);
            if !kind.is_order() && with_targets {
                let t = ((F::key(nd) as usize + 1) % n.max(1)) as K;
                for res in [ResK::Path, ResK::Search] {
                    let cfg = Cfg { kind, transpose, target: Some(t), meth: Meth::Filter, res, alt: false, tt: false };
                    let _ = F::search(nd, &cfg, &mut |_| true);
                }
                // a search that discovers nothing at all: every edge rejected
                let cfg = Cfg { kind, transpose, target: Some(t), meth: Meth::Filter, res: ResK::Path, alt: false, tt: false };
                let _ = F::search(nd, &cfg, &mut |_| false);
                let cfg = Cfg { kind, transpose, target: None, meth: Meth::None, res: ResK::Cycle, alt: false, tt: false };
                let _ = F::search(nd, &cfg, &mut |_| true);
            }
        }
    }
}

pub fn exec<F: Fl>(w: &World<F>, root: K, cfg: &Cfg, reject: &[Arc3]) -> Result<(SRes, Trace), Fail> {
    let mut trace: Trace = Vec::new();
    let mode = interf();
    let r = guarded(|| {
        if mode == 1 {
            for nd in &w.nodes {
                all_searches_from::<F>(nd, w.nodes.len(), true);
            }
        }
        let mut cb = |e: &F::Edge| {
            let a = F::edge_accessors(e);
            let ok = !reject.contains(&a);
            trace.push((a, ok));
            if mode == 3 || mode == 4 {
                // the value of the node the edge leads to changes while it may be waiting in the frontier
                let (_, t, _) = F::edge_parts(e);
                F::bump(&t, if mode == 3 { 1 } else { -1 });
            }
            if mode == 2 {
                // look-ups on both end points first (a look-up must not disturb a running traversal either)
                let (s, t, _) = F::edge_parts(e);
                // (one key only - the root's: looking up every key in turn could undo what the first look-up did)
                let _ = (F::is_connected(&s, root), F::find_out(&t, root), F::find_in(&s, root));
                let _ = (F::deg_out(&s), F::deg_in(&s), F::is_orphan(&t));
                all_searches_from::<F>(&t, 0, false);
            }
            ok
        };
        F::search(&w.nodes[root as usize], cfg, &mut cb).0
    });
    r.map(|s| (s, trace))
}

/// Two terminal calls on one search object; returns both (result, closure trace) pairs.
pub fn exec_reuse<F: Fl>(w: &World<F>, root: K, cfg: &Cfg, second: ResK, reject: &[Arc3]) -> Result<((SRes, Trace), (SRes, Trace)), Fail> {
    let trace: std::cell::RefCell<Trace> = std::cell::RefCell::new(Vec::new());
    let split = std::cell::Cell::new(0usize);
    let r = guarded(|| {
        let mut cb = |e: &F::Edge| {
            let a = F::edge_accessors(e);
            let ok = !reject.contains(&a);
            trace.borrow_mut().push((a, ok));
            ok
        };
        let mut between = || split.set(trace.borrow().len());
        F::search_reuse(&w.nodes[root as usize], cfg, second, &mut between, &mut cb)
    });
    r.map(|(s1, s2)| {
        let t = trace.into_inner();
        let k = split.get();
        ((s1, t[..k].to_vec()), (s2, t[k..].to_vec()))
    })
}

pub fn aspects(prop: &str, cfg: &Cfg) -> u32 {
    match prop {
        "C04" => A_EXIST | A_VALID | A_ACCEPTED | A_SHORTEST | A_DIRECTION,
        "C05" => A_EXIST | A_VALID | A_ACCEPTED | A_SIMPLE | A_DIRECTION,
        "C06" => A_EXIST | A_VALID | A_ACCEPTED | A_PFS | A_DIRECTION,
        "C07" => {
            if cfg.meth == Meth::ForEach {
                A_FOREACH | A_DIRECTION
            } else {
                A_EXIST | A_ACCEPTED
            }
        }
        "C08" => A_EXIST | A_VALID | A_ACCEPTED | A_DIRECTION | A_FOREACH,
        "C09" => A_EXIST | A_VALID | A_ACCEPTED | A_SIMPLE | A_SHORTEST | A_DIRECTION,
        "C10" => A_EXIST | A_VALID | A_ACCEPTED | A_DFS_ORDER | A_DIRECTION,
        _ => 0,
    }
}

fn no_rejected(arcs: &[Arc3], reject: &[Arc3]) -> Result<(), Bad> {
    for a in arcs {
        if reject.contains(a) {
            return bad("result-uses-rejected-edge", format!("result {:?} contains {:?}, which the filter rejects", arcs, a));
        }
    }
    Ok(())
}

/// The universal oracle. `asp` selects the aspects the calling property states.
pub fn oracle(asp: u32, m: &GModel, c: &GCase, sres: &SRes, trace: &Trace, dfs: &mut DfsOrders) -> Result<(), Bad> {
    let cfg = &c.cfg;
    let all = m.leaving(cfg.transpose);
    let acc = accepted(&all, &c.reject);
    let r = c.root as usize;
    let vals = &m.vals;
    if asp & A_DIRECTION != 0 {
        for (a, _) in trace {
            let x = a.0 as usize;
            if x >= m.n || !all[x].contains(a) {
                return bad(
                    "callback-foreign-edge",
                    format!("the closure was handed {:?}, which is not an edge leaving n{} in the search direction (edges there: {:?})", a, a.0, all.get(x)),
                );
            }
        }
    }
    match (cfg.kind.is_order(), cfg.res) {
        (false, ResK::Path) | (false, ResK::Search) => {
            if let Some(t) = cfg.target {
                let t = t as usize;
                if t != r {
                    let reachable = reach(&acc, r)[t];
                    let found = match sres {
                        SRes::Path(p) => p.is_some(),
                        SRes::Node(x) => x.is_some(),
                        _ => return bad("result-kind", format!("{:?}", sres)),
                    };
                    if asp & A_EXIST != 0 && found != reachable {
                        return bad(
                            if found { "found-unreachable-target" } else { "missed-reachable-target" },
                            format!("target n{} reachable from n{} through accepted edges: {}, but result is {:?}", t, r, reachable, sres),
                        );
                    }
                    match sres {
                        SRes::Path(Some(po)) => {
                            if asp & A_VALID != 0 {
                                path_valid(po, r, t, &all, &acc, vals)?;
                            } else if asp & A_ACCEPTED != 0 {
                                no_rejected(&po.edges, &c.reject)?;
                            }
                            if asp & A_SHORTEST != 0 && cfg.kind == Kind::Bfs {
                                let d = dist(&acc, r)[t];
                                if Some(po.edges.len()) != d {
                                    return bad("path-not-shortest", format!("bfs path {:?} has {} edges, shortest has {:?}", po.edges, po.edges.len(), d));
                                }
                            }
                            if asp & A_SIMPLE != 0 {
                                path_simple(po)?;
                            }
                        }
                        SRes::Node(Some((k, v))) => {
                            if asp & A_VALID != 0 && (*k as usize != t || *v != vals[t]) {
                                return bad("search-wrong-node", format!("search() for target n{} returned node ({}, value {})", t, k, v));
                            }
                        }
                        _ => {}
                    }
                }
            }
        }
        (false, ResK::Cycle) => {
            let shortest = shortest_cycle(&acc, r);
            let po = match sres {
                SRes::Path(p) => p,
                _ => return bad("result-kind", format!("{:?}", sres)),
            };
            if asp & A_EXIST != 0 && po.is_some() != shortest.is_some() {
                return bad(
                    if po.is_some() { "found-nonexistent-cycle" } else { "missed-cycle" },
                    format!("a closed path of accepted edges through n{} exists: {}, result {:?}", r, shortest.is_some(), po.as_ref().map(|p| &p.edges)),
                );
            }
            if let Some(po) = po {
                if asp & A_VALID != 0 {
                    path_valid(po, r, r, &all, &acc, vals)?;
                } else if asp & A_ACCEPTED != 0 {
                    no_rejected(&po.edges, &c.reject)?;
                }
                if m.directed {
                    if asp & A_SIMPLE != 0 {
                        cycle_simple(po, r)?;
                    }
                    if asp & A_SHORTEST != 0 && cfg.kind == Kind::Bfs && Some(po.edges.len()) != shortest {
                        return bad("cycle-not-shortest", format!("bfs cycle {:?} has {} edges, shortest has {:?}", po.edges, po.edges.len(), shortest));
                    }
                }
            }
        }
        (true, ResK::Nodes) | (true, ResK::Edges) => {
            let rs = reach(&acc, r);
            let (seq, edges): (Vec<K>, Option<&Vec<Arc3>>) = match sres {
                SRes::Nodes(v) => {
                    if asp & A_VALID != 0 {
                        for (k, val) in v {
                            if (*k as usize) >= m.n || *val != vals[*k as usize] {
                                return bad("order-node-value", format!("ordering lists node ({}, value {})", k, val));
                            }
                        }
                    }
                    (v.iter().map(|x| x.0).collect(), None)
                }
                SRes::Edges(es) => {
                    let mut s: Vec<K> = es.iter().map(|a| a.1).collect();
                    if cfg.kind == Kind::Pre {
                        s.insert(0, r as K);
                    } else {
                        s.push(r as K);
                    }
                    (s, Some(es))
                }
                _ => return bad("result-kind", format!("{:?}", sres)),
            };
            if let Some(es) = edges {
                if asp & A_VALID != 0 {
                    for a in es {
                        let x = a.0 as usize;
                        if x >= m.n || !all[x].contains(a) {
                            return bad("order-nonexistent-edge", format!("search_edges lists {:?}, not an edge of the graph in this direction", a));
                        }
                    }
                }
                if asp & A_ACCEPTED != 0 {
                    no_rejected(es, &c.reject)?;
                }
            }
            if asp & A_EXIST != 0 {
                let mut seen = BTreeSet::new();
                for k in &seq {
                    if !seen.insert(*k) {
                        return bad("order-node-twice", format!("{} lists n{} twice: {:?}", cfg.res.name(), k, seq));
                    }
                }
                let exp: BTreeSet<K> = (0..m.n).filter(|x| rs[*x]).map(|x| x as K).collect();
                if seen != exp {
                    return bad(
                        if seen.len() < exp.len() { "order-misses-reachable-node" } else { "order-lists-unreachable-node" },
                        format!("{} covers nodes {:?}, reachable through accepted edges: {:?}", cfg.res.name(), seq, exp),
                    );
                }
            }
            if asp & A_DFS_ORDER != 0 {
                let (pre, post, complete) = dfs.get(&acc, r);
                let set = if cfg.kind == Kind::Pre { pre } else { post };
                if *complete && !set.contains(&seq) {
                    let pos_ok = if cfg.kind == Kind::Pre { seq.first() == Some(&(r as K)) } else { seq.last() == Some(&(r as K)) };
                    return bad(
                        if !pos_ok {
                            "order-root-position"
                        } else if cfg.kind == Kind::Pre {
                            "not-a-dfs-discovery-order"
                        } else {
                            "not-a-dfs-finishing-order"
                        },
                        format!(
                            "{} {} gives {:?}; no depth-first traversal of the accepted edges from n{} {} the nodes in this order ({} possible orders, e.g. {:?})",
                            cfg.kind.name(), cfg.res.name(), seq, r,
                            if cfg.kind == Kind::Pre { "discovers" } else { "finishes" },
                            set.len(), set.iter().next()
                        ),
                    );
                }
            }
        }
        _ => return bad("harness-invalid-cfg", format!("{:?}", cfg)),
    }
    if asp & A_FOREACH != 0 && cfg.meth == Meth::ForEach && cfg.target.is_none() && cfg.res != ResK::Cycle {
        let rs = reach(&all, r);
        let mut exp = Vec::new();
        for x in 0..m.n {
            if rs[x] {
                exp.extend(all[x].iter().cloned());
            }
        }
        let got: Vec<Arc3> = trace.iter().map(|t| t.0).collect();
        if multiset(&got) != multiset(&exp) {
            let g = multiset(&got);
            let e = multiset(&exp);
            let code = if e.iter().any(|(a, c)| g.get(a).copied().unwrap_or(0) < *c) {
                "for_each-missed-edge"
            } else if g.keys().any(|a| !e.contains_key(a)) {
                "for_each-foreign-edge"
            } else {
                "for_each-edge-twice"
            };
            return bad(code, format!("for_each saw {:?}; edges leaving nodes reachable from n{}: {:?}", got, r, exp));
        }
    }
    if asp & A_PFS != 0 && matches!(cfg.kind, Kind::PfsMin | Kind::PfsMax) && cfg.res != ResK::Cycle && cfg.meth != Meth::None {
        pfs_order_ok(trace, r, &all, vals, cfg.kind == Kind::PfsMax)?;
    }
    Ok(())
}

pub fn class_of(cfg: &Cfg, code: &str) -> String {
    // the closure kind (none / for_each / filter) is deliberately not part of
    // the class: one defect shows up under all three
    format!(
        "{}{}.{}/{}",
        cfg.kind.name(),
        if cfg.transpose { ".transpose" } else { "" },
        cfg.res.name(),
        code
    )
}

/// Run one case on the real code and apply the oracle of `prop`.
pub fn check_case<F: Fl>(prop: &str, w: &World<F>, m: &GModel, c: &GCase, dfs: &mut DfsOrders, wt: Option<&World<F>>) -> Result<(SRes, usize), (String, String)> {
    if let Some(sec) = c.mode.strip_prefix("reuse:") {
        // a configured search object must behave the same on every use
        let second = match sec {
            "nodes" => ResK::Nodes,
            "edges" => ResK::Edges,
            "cycle" => ResK::Cycle,
            "search" => ResK::Search,
            _ => ResK::Path,
        };
        let both = exec_reuse::<F>(w, c.root, &c.cfg, second, &c.reject);
        let mut cfg2 = c.cfg;
        cfg2.res = second;
        // (for the searches the first use is also a plain configuration of the sweep: not repeated)
        let fresh1 = if c.cfg.kind.is_order() { exec::<F>(w, c.root, &c.cfg, &c.reject) } else { both.as_ref().map(|b| b.0.clone()).map_err(|f| f.clone()) };
        let fresh2 = exec::<F>(w, c.root, &cfg2, &c.reject);
        return match (both, fresh1, fresh2) {
            (Ok((u1, u2)), Ok(f1), Ok(f2)) => {
                if u1 != f1 {
                    Err((class_of(&c.cfg, "first-use-differs-from-fresh-object"), format!("{}: first call on the object gives {:?}, a fresh object {:?}", c.program(F::NAME), u1, f1)))
                } else if u2 != f2 {
                    Err((class_of(&cfg2, "second-use-of-search-object-differs"), format!("{}; then {} on the same object gives {:?} (closure calls {:?}), a fresh object gives {:?} ({:?})", c.program(F::NAME), second.name(), u2.0, u2.1, f2.0, f2.1)))
                } else {
                    let n = u2.1.len();
                    Ok((u2.0, n))
                }
            }
            (Err(f), _, _) => Err((class_of(&c.cfg, f.kind()), format!("{} (object used twice): {}", c.program(F::NAME), f.msg()))),
            (_, Err(f), _) | (_, _, Err(f)) => Err((class_of(&c.cfg, f.kind()), format!("{}: {}", c.program(F::NAME), f.msg()))),
        };
    }
    let (sres, trace) = match exec::<F>(w, c.root, &c.cfg, &c.reject) {
        Ok(x) => x,
        Err(f) => return Err((class_of(&c.cfg, f.kind()), format!("{}: {}", c.program(F::NAME), f.msg()))),
    };
    if c.mode == "diff" || c.mode == "diffonly" {
        // C08: the same operation without transpose() on the edge-reversed graph
        let wt = wt.expect("harness: reversed world");
        let mut cfg2 = c.cfg;
        cfg2.transpose = false;
        let other = exec::<F>(wt, c.root, &cfg2, &c.reject);
        match other {
            Ok((s2, t2)) => {
                if s2 != sres || t2 != trace {
                    return Err((
                        class_of(&c.cfg, "differs-from-reversed-graph"),
                        format!(
                            "{}: result {:?} callbacks {:?}; the same call without transpose() on the edge-reversed graph: result {:?} callbacks {:?}",
                            c.program(F::NAME), sres, trace, s2, t2
                        ),
                    ));
                }
            }
            Err(f) => {
                return Err((class_of(&cfg2, f.kind()), format!("on the reversed graph: {}", f.msg())));
            }
        }
    }
    if c.mode == "diffonly" {
        return Ok((sres, trace.len()));
    }
    match oracle(aspects(prop, &c.cfg), m, c, &sres, &trace, dfs) {
        Ok(()) => Ok((sres, trace.len())),
        Err((code, detail)) => Err((class_of(&c.cfg, &code), format!("{}: {}", c.program(F::NAME), detail))),
    }
}

fn subsets(arcs: &[Arc3]) -> Vec<Vec<Arc3>> {
    let n = arcs.len();
    (0..(1usize << n))
        .map(|m| (0..n).filter(|i| m & (1 << i) != 0).map(|i| arcs[i]).collect())
        .collect()
}

fn val_assignments(n: usize, range: i8) -> Vec<Vec<i8>> {
    let mut out = vec![vec![]];
    for _ in 0..n {
        let mut nx = Vec::new();
        for v in &out {
            for x in 0..range {
                let mut w: Vec<i8> = v.clone();
                w.push(x);
                nx.push(w);
            }
        }
        out = nx;
    }
    out
}

#[derive(Serialize, Deserialize, Clone, Debug)]
pub struct GParams {
    pub n: usize,
    pub max_l: usize,
    /// size of the node-value range for C06 (0 = default values only)
    #[serde(default)]
    pub val_range: i8,
    /// cap on the number of distinct arcs for which all filter subsets are taken
    #[serde(default)]
    pub max_filter_arcs: usize,
    /// enumerate shapes up to renaming of the nodes (value-independent searches only)
    #[serde(default)]
    pub iso: bool,
    /// > 0: the large structured families (chains / cycles / fans of 2..=large
    /// nodes plus every single extra edge) instead of the small shapes
    #[serde(default)]
    pub large: usize,
    /// reach every shape through a history with removals (see `build_world`)
    #[serde(default)]
    pub churn: u8,
    /// > 0: the hub families (4 nodes, 1..=hubs parallel / self-loop edges at
    /// one node) instead of the chains / cycles / fans
    #[serde(default)]
    pub hubs: usize,
    /// non-empty: the prefixed family - every small shape (n, max_l) placed
    /// behind a corridor / a fan of m already-discovered nodes, for every m listed
    #[serde(default)]
    pub prefix: Vec<usize>,
    /// other searches interfering with the checked one (see `INTERF`)
    #[serde(default)]
    pub interf: u8,
}

/// The large structured families: (family name, connect history).
pub fn large_graphs(max_n: usize) -> Vec<(String, usize, Vec<(K, K)>)> {
    let mut out = Vec::new();
    for n in 2..=max_n {
        let chain: Vec<(K, K)> = (0..n - 1).map(|i| (i as K, (i + 1) as K)).collect();
        // chain plus every single extra edge, appended last and inserted first
        for i in 0..n {
            for j in 0..n {
                let mut c = chain.clone();
                c.push((i as K, j as K));
                out.push((format!("chain{}+({},{})", n, i, j), n, c));
                if i + 1 != j {
                    let mut c = vec![(i as K, j as K)];
                    c.extend(chain.iter().cloned());
                    out.push((format!("({},{})+chain{}", i, j, n), n, c));
                }
            }
        }
        // cycle plus a chord between a few positions
        let mut cyc = chain.clone();
        cyc.push(((n - 1) as K, 0));
        let picks: Vec<usize> = {
            let mut p = vec![0, 1, n / 2, n - 1];
            p.sort();
            p.dedup();
            p
        };
        for &i in &picks {
            for &j in &picks {
                let mut c = cyc.clone();
                c.push((i as K, j as K));
                out.push((format!("cycle{}+({},{})", n, i, j), n, c));
            }
        }
        // fan-out and fan-in with an extra edge between a few positions
        let fan: Vec<(K, K)> = (1..n).map(|i| (0, i as K)).collect();
        let fan_in: Vec<(K, K)> = (1..n).map(|i| (i as K, 0)).collect();
        for &i in &picks {
            for &j in &picks {
                let mut c = fan.clone();
                c.push((i as K, j as K));
                out.push((format!("fan{}+({},{})", n, i, j), n, c));
                let mut c = fan_in.clone();
                c.push((i as K, j as K));
                out.push((format!("fanin{}+({},{})", n, i, j), n, c));
            }
        }
    }
    out
}

/// High-degree nodes on few nodes: node 0 with d = 1..=dmax edges to / from
/// nodes 1..3 (parallel edges, self-loops), followed by the tail 1->2->3 so
/// that the traversal goes on beyond the hub. Per-node thresholds (an inline
/// buffer, a chunked iterator, an index built from some degree on) are
/// reached with every residue of d.
pub fn hub_graphs(dmax: usize) -> Vec<(String, usize, Vec<(K, K)>)> {
    let mut out = Vec::new();
    let fams: [(&str, fn(usize) -> (K, K)); 4] = [
        ("hub-out", |i| (0, 1 + (i % 3) as K)),
        ("hub-in", |i| (1 + (i % 3) as K, 0)),
        ("hub-mixed", |i| match i % 4 {
            0 => (0, 1),
            1 => (2, 0),
            2 => (0, 0),
            _ => (0, 3),
        }),
        ("hub-parallel", |_| (0, 1)),
    ];
    for d in 1..=dmax {
        for (name, f) in fams.iter() {
            let mut c: Vec<(K, K)> = (0..d).map(|i| f(i)).collect();
            c.push((1, 2));
            c.push((2, 3));
            out.push((format!("{}{}", name, d), 4, c));
        }
    }
    out
}

/// The prefixed family: every small shape `sh` (on `k` nodes) placed behind
/// `m` nodes that a search from node 0 discovers first - a corridor
/// 0 -> 1 -> .. -> m-1 -> shape, or a fan 0 -> {1..m-1 dead ends}, 0 -> shape -
/// optionally closed by an edge from one shape node back to node 0. The
/// structure that decides the outcome stays exhaustively enumerated while the
/// search's own bookkeeping (visited set, queue, stack, heap) has crossed any
/// size threshold up to m. Returns (name, nodes, connects, indices of the
/// shape's own arcs, first shape node).
pub fn prefixed_graphs(ms: &[usize], k: usize, shapes: &[Vec<(K, K)>]) -> Vec<(String, usize, Vec<(K, K)>, Vec<usize>, usize)> {
    let mut out = Vec::new();
    for &m in ms {
        for (si, sh) in shapes.iter().enumerate() {
            if sh.is_empty() {
                continue;
            }
            for fan in [false, true] {
                for back in 0..=k {
                    // back == 0: no closing edge; otherwise from shape node back-1 to node 0
                    let mut c: Vec<(K, K)> = Vec::new();
                    if fan {
                        for i in 1..m {
                            c.push((0, i as K));
                        }
                        c.push((0, m as K));
                    } else {
                        for i in 0..m {
                            c.push((i as K, (i + 1) as K));
                        }
                    }
                    let first = c.len();
                    for (u, v) in sh {
                        c.push(((m + *u as usize) as K, (m + *v as usize) as K));
                    }
                    let own: Vec<usize> = (first..c.len()).collect();
                    if back > 0 {
                        c.push(((m + back - 1) as K, 0));
                    }
                    out.push((format!("{}{}+shape{}{}", if fan { "fan" } else { "corridor" }, m, si, if back > 0 { format!("+back{}", back - 1) } else { String::new() }), m + k, c, own, m));
                }
            }
        }
    }
    out
}

pub fn prefixed_sweep<F: Fl>(job: &Job, p: &GParams, out: &mut Out) {
    let prop = job.property.as_str();
    let small = shapes::<F>(p.n, p.max_l);
    let graphs = prefixed_graphs(&p.prefix, p.n, &small);
    out.stats.max("prefixed_graphs_total", graphs.len() as u64);
    let mut dfs = DfsOrders::default();
    for (gi, (name, n, conns, own, first)) in graphs.iter().enumerate() {
        if gi % job.nshards != job.shard {
            continue;
        }
        // the exact DFS-order oracle explodes on fans; they are for the searches only
        if prop == "C10" && name.starts_with("fan") && *first > 7 {
            continue;
        }
        out.stats.inc("shapes");
        out.stats.max("max_nodes", *n as u64);
        crate::progress::set_case(|| json!({"kind":"gsweep-large","flavour":F::NAME,"name":name,"n":n,"conns":conns}).to_string());
        let val_sets: Vec<Vec<i8>> = if matches!(prop, "C06" | "C07" | "C09") {
            vec![(0..*n).map(|k| (k % 100) as i8).collect(), (0..*n).map(|k| ((*n - k) % 100) as i8).collect(), vec![0; *n]]
        } else {
            vec![(0..*n).map(|k| (k % 100) as i8).collect()]
        };
        let conns_t: Vec<(K, K)> = conns.iter().map(|(u, v)| (*v, *u)).collect();
        let targets: Vec<usize> = (*first..*n).collect();
        for (vi, vals) in val_sets.iter().enumerate() {
            let m = GModel::new(*n, F::DIRECTED, conns, vals);
            let w = build_world::<F>(vals, conns);
            let wt = if prop == "C08" { Some(build_world::<F>(vals, &conns_t)) } else { None };
            for root in [0 as K, *first as K] {
                for (cfg, reject, mode) in configs_picked(prop, F::DIRECTED, *n, root, conns, own, &targets) {
                    if vi > 0 && !matches!(cfg.kind, Kind::PfsMin | Kind::PfsMax) {
                        continue;
                    }
                    crate::progress::tick();
                    let c = GCase { n: *n, conns: conns.clone(), vals: vals.clone(), root, cfg, reject, mode: mode.to_string(), churn: churn(), interf: interf() };
                    out.stats.inc("evaluations");
                    match check_case::<F>(prop, &w, &m, &c, &mut dfs, wt.as_ref()) {
                        Ok(_) => {
                            out.stats.inc("nontrivial");
                        }
                        Err((class, what)) => out.report(Violation {
                            property: prop.into(),
                            engine: "gsweep".into(),
                            flavour: F::NAME.into(),
                            class,
                            what,
                            case: json!({"kind":"gsweep","flavour":F::NAME,"case":c,"program":c.program(F::NAME)}),
                            order: (conns.len() * 1000 + c.reject.len() * 10 + n) as u64,
                        }),
                    }
                }
            }
        }
    }
}

/// Configurations for the large graphs: the filter subsets are replaced by a
/// few single-arc rejections (the extra edge, the first and a middle chain edge).
fn configs_large(prop: &str, directed: bool, n: usize, root: K, conns: &[(K, K)]) -> Vec<(Cfg, Vec<Arc3>, &'static str)> {
    let l = conns.len();
    let picks: Vec<usize> = {
        let mut p = vec![0usize, n / 2, n - 1];
        p.sort();
        p.dedup();
        p
    };
    configs_picked(prop, directed, n, root, conns, &[l - 1, 0, l / 2], &picks)
}

/// As `configs_large` with the arcs to reject singly and the targets given.
fn configs_picked(prop: &str, directed: bool, n: usize, root: K, conns: &[(K, K)], reject_idx: &[usize], target_picks: &[usize]) -> Vec<(Cfg, Vec<Arc3>, &'static str)> {
    let arc = |i: usize| (conns[i].0, conns[i].1, (i + 1) as E);
    let rev = |a: Arc3| (a.1, a.0, a.2);
    let mut rejects: Vec<Vec<Arc3>> = vec![vec![]];
    for &i in reject_idx {
        let a = arc(i);
        rejects.push(vec![a]);
        rejects.push(vec![rev(a)]);
        if !directed {
            rejects.push(vec![a, rev(a)]);
        }
    }
    rejects.dedup();
    let picks: Vec<K> = target_picks.iter().map(|x| *x as K).collect();
    // reuse the small-shape configuration generator with an empty arc list
    // (no subsets), then attach the reject sets to the filter configurations
    let base = configs(prop, directed, n, root, &[], &[]);
    let mut v = Vec::new();
    for (cfg, _, mode) in base {
        if let Some(t) = cfg.target {
            if !picks.contains(&t) {
                continue;
            }
        }
        if cfg.meth == Meth::Filter {
            for r in &rejects {
                v.push((cfg, r.clone(), mode));
            }
        } else {
            v.push((cfg, vec![], mode));
        }
    }
    v
}

pub fn large_sweep<F: Fl>(job: &Job, p: &GParams, out: &mut Out) {
    let prop = job.property.as_str();
    let graphs = if p.hubs > 0 { hub_graphs(p.hubs) } else { large_graphs(p.large) };
    out.stats.max("large_graphs_total", graphs.len() as u64);
    if p.hubs > 0 {
        out.stats.max("max_hub_degree", p.hubs as u64);
    }
    let mut dfs = DfsOrders::default();
    for (gi, (name, n, conns)) in graphs.iter().enumerate() {
        if gi % job.nshards != job.shard {
            continue;
        }
        // the exact DFS-order oracle explodes on fans; they are for the searches only
        if prop == "C10" && name.starts_with("fan") && *n > 7 {
            continue;
        }
        out.stats.inc("shapes");
        out.stats.max("max_nodes", *n as u64);
        crate::progress::set_case(|| json!({"kind":"gsweep-large","flavour":F::NAME,"name":name,"n":n,"conns":conns}).to_string());
        let val_sets: Vec<Vec<i8>> = if matches!(prop, "C06" | "C07" | "C09") {
            vec![(0..*n).map(|k| k as i8).collect(), (0..*n).map(|k| (*n - k) as i8).collect(), vec![0; *n], (0..*n).map(|k| (k % 2) as i8).collect()]
        } else {
            vec![(0..*n).map(|k| k as i8).collect()]
        };
        let conns_t: Vec<(K, K)> = conns.iter().map(|(u, v)| (*v, *u)).collect();
        for (vi, vals) in val_sets.iter().enumerate() {
            let m = GModel::new(*n, F::DIRECTED, conns, vals);
            let w = build_world::<F>(vals, conns);
            let wt = if prop == "C08" { Some(build_world::<F>(vals, &conns_t)) } else { None };
            let roots: Vec<K> = {
                let mut r = vec![0usize, n / 2, n - 1];
                r.sort();
                r.dedup();
                r.into_iter().map(|x| x as K).collect()
            };
            for root in roots {
                for (cfg, reject, mode) in configs_large(prop, F::DIRECTED, *n, root, conns) {
                    if vi > 0 && !matches!(cfg.kind, Kind::PfsMin | Kind::PfsMax) {
                        continue;
                    }
                    crate::progress::tick();
                    let c = GCase { n: *n, conns: conns.clone(), vals: vals.clone(), root, cfg, reject, mode: mode.to_string(), churn: churn(), interf: interf() };
                    out.stats.inc("evaluations");
                    match check_case::<F>(prop, &w, &m, &c, &mut dfs, wt.as_ref()) {
                        Ok((sres, _)) => {
                            out.stats.inc("nontrivial");
                            if *n >= 17 {
                                out.stats.inc("evaluations_on_17_or_more_nodes");
                            }
                            if out.stats.samples.len() < 2 && *n >= 18 {
                                out.stats.sample(json!({"family": name, "case": c.cfg.describe(), "result": format!("{:?}", sres).chars().take(200).collect::<String>()}));
                            }
                        }
                        Err((class, what)) => out.report(Violation {
                            property: prop.into(),
                            engine: "gsweep".into(),
                            flavour: F::NAME.into(),
                            class,
                            what,
                            case: json!({"kind":"gsweep","flavour":F::NAME,"case":c,"program":c.program(F::NAME)}),
                            order: (conns.len() * 1000 + c.reject.len() * 10 + n) as u64,
                        }),
                    }
                }
            }
        }
    }
}

/// C06: the frontier of a priority-first search is a priority queue; its
/// behaviour depends on the *order in which values arrive* and on how many
/// are pending, which the small shapes (<= 3 pending nodes, <= 3 values)
/// barely exercise. Family: root 0 with k children (connected in key order),
/// child i with one child of its own (so every node of the first level has
/// an edge to expand and the second level arrives while the first is still
/// pending) - and *every* assignment of the distinct values 1..2k to the 2k
/// non-root nodes (all (2k)! arrival orders), plus every assignment of values
/// from {1,2} (ties). min and max, complete traversal and every target.
pub fn heap_sweep<F: Fl>(job: &Job, k: usize, out: &mut Out) {
    let prop = job.property.as_str();
    let n = 1 + 2 * k;
    let mut conns: Vec<(K, K)> = (1..=k).map(|i| (0, i as K)).collect();
    conns.extend((1..=k).map(|i| (i as K, (k + i) as K)));
    let mut dfs = DfsOrders::default();
    // all permutations of 1..=2k (Heap's algorithm), then the tie assignments
    let mut assignments: Vec<Vec<i8>> = Vec::new();
    {
        let m = 2 * k;
        let mut a: Vec<i8> = (1..=m as i8).collect();
        let mut c = vec![0usize; m];
        assignments.push(a.clone());
        let mut i = 0;
        while i < m {
            if c[i] < i {
                if i % 2 == 0 {
                    a.swap(0, i);
                } else {
                    a.swap(c[i], i);
                }
                assignments.push(a.clone());
                c[i] += 1;
                i = 0;
            } else {
                c[i] = 0;
                i += 1;
            }
        }
        for mask in 0..(1u32 << m) {
            assignments.push((0..m).map(|b| 1 + ((mask >> b) & 1) as i8).collect());
        }
    }
    out.stats.max("heap_family_value_assignments", assignments.len() as u64);
    for (ai, asg) in assignments.iter().enumerate() {
        if ai % job.nshards != job.shard {
            continue;
        }
        let mut vals = vec![0i8];
        vals.extend(asg.iter().cloned());
        crate::progress::set_case(|| json!({"kind":"gsweep-heap","flavour":F::NAME,"k":k,"vals":vals}).to_string());
        let m = GModel::new(n, F::DIRECTED, &conns, &vals);
        let w = build_world::<F>(&vals, &conns);
        for kind in [Kind::PfsMin, Kind::PfsMax] {
            let mut cfgs = vec![Cfg { kind, transpose: false, target: None, meth: Meth::ForEach, res: ResK::Search, alt: false, tt: false }];
            for t in [k, k + 1, 2 * k] {
                cfgs.push(Cfg { kind, transpose: false, target: Some(t as K), meth: Meth::ForEach, res: ResK::Path, alt: false, tt: false });
            }
            for cfg in cfgs {
                crate::progress::tick();
                let c = GCase { n, conns: conns.clone(), vals: vals.clone(), root: 0, cfg, reject: vec![], mode: String::new(), churn: churn(), interf: interf() };
                out.stats.inc("evaluations");
                out.stats.inc("nontrivial");
                if let Err((class, what)) = check_case::<F>(prop, &w, &m, &c, &mut dfs, None) {
                    out.report(Violation {
                        property: prop.into(),
                        engine: "gsweep".into(),
                        flavour: F::NAME.into(),
                        class,
                        what,
                        case: json!({"kind":"gsweep","flavour":F::NAME,"case":c,"program":c.program(F::NAME)}),
                        order: (k * 100000 + ai) as u64,
                    });
                }
            }
        }
    }
}

/// The configurations (cfg, reject-set, mode) a property sweeps for one shape and root.
pub fn configs(prop: &str, directed: bool, n: usize, root: K, arcs: &[Arc3], arcs_t: &[Arc3]) -> Vec<(Cfg, Vec<Arc3>, &'static str)> {
    let mut v = Vec::new();
    let targets: Vec<K> = (0..n as K).filter(|t| *t != root).collect();
    let subs = subsets(arcs);
    let mk = |kind, transpose, target, meth, res| Cfg { kind, transpose, target, meth, res, alt: false, tt: false };
    // the search properties are also swept transposed on the directed flavours (oracle: the reversed model)
    let subs_t = if directed { subsets(arcs_t) } else { vec![] };
    let passes: Vec<(bool, &Vec<Vec<Arc3>>)> = if directed && matches!(prop, "C04" | "C05" | "C06" | "C09" | "C10") { vec![(false, &subs), (true, &subs_t)] } else { vec![(false, &subs)] };
    for (tr, subs) in passes {
    let subs: &Vec<Vec<Arc3>> = subs;
    match prop {
        "C04" | "C05" => {
            let kind = if prop == "C04" { Kind::Bfs } else { Kind::Dfs };
            for &t in &targets {
                for res in [ResK::Path, ResK::Search] {
                    v.push((mk(kind, tr, Some(t), Meth::None, res), vec![], ""));
                    for s in subs {
                        v.push((mk(kind, tr, Some(t), Meth::Filter, res), s.clone(), ""));
                    }
                }
            }
        }
        "C06" => {
            for kind in [Kind::PfsMin, Kind::PfsMax] {
                // full traversals: expansion order only
                v.push((mk(kind, tr, None, Meth::ForEach, ResK::Search), vec![], ""));
                for s in subs {
                    if !s.is_empty() {
                        v.push((mk(kind, tr, None, Meth::Filter, ResK::Search), s.clone(), ""));
                    }
                }
                for &t in &targets {
                    for res in [ResK::Path, ResK::Search] {
                        v.push((mk(kind, tr, Some(t), Meth::None, res), vec![], ""));
                        v.push((mk(kind, tr, Some(t), Meth::ForEach, res), vec![], ""));
                        for s in subs {
                            v.push((mk(kind, tr, Some(t), Meth::Filter, res), s.clone(), ""));
                        }
                    }
                }
            }
        }
        "C07" if !tr => {
            for kind in ALL_KINDS {
                if kind.is_order() {
                    for res in [ResK::Nodes, ResK::Edges] {
                        v.push((mk(kind, false, None, Meth::ForEach, res), vec![], ""));
                        for s in subs {
                            if !s.is_empty() {
                                v.push((mk(kind, false, None, Meth::Filter, res), s.clone(), ""));
                            }
                        }
                    }
                } else {
                    v.push((mk(kind, false, None, Meth::ForEach, ResK::Search), vec![], ""));
                    v.push((mk(kind, false, None, Meth::ForEach, ResK::Path), vec![], ""));
                    for s in subs {
                        if s.is_empty() {
                            continue;
                        }
                        v.push((mk(kind, false, None, Meth::Filter, ResK::Cycle), s.clone(), ""));
                        for &t in &targets {
                            v.push((mk(kind, false, Some(t), Meth::Filter, ResK::Path), s.clone(), ""));
                            v.push((mk(kind, false, Some(t), Meth::Filter, ResK::Search), s.clone(), ""));
                        }
                    }
                }
            }
        }
        "C08" if !tr => {
            if directed {
                let subs_t = subsets(arcs_t);
                for kind in ALL_KINDS {
                    if kind.is_order() {
                        for res in [ResK::Nodes, ResK::Edges] {
                            v.push((mk(kind, true, None, Meth::None, res), vec![], "diff"));
                            v.push((mk(kind, true, None, Meth::ForEach, res), vec![], "diff"));
                            for s in &subs_t {
                                v.push((mk(kind, true, None, Meth::Filter, res), s.clone(), "diff"));
                            }
                            // (c) without transpose() only out-edges are followed
                            v.push((mk(kind, false, None, Meth::ForEach, res), vec![], ""));
                        }
                    } else {
                        v.push((mk(kind, true, None, Meth::ForEach, ResK::Search), vec![], "diff"));
                        v.push((mk(kind, false, None, Meth::ForEach, ResK::Search), vec![], ""));
                        v.push((mk(kind, true, None, Meth::None, ResK::Cycle), vec![], "diff"));
                        for s in &subs_t {
                            v.push((mk(kind, true, None, Meth::Filter, ResK::Cycle), s.clone(), "diff"));
                        }
                        // the root itself as target: outside C04/C05/C06's wording, but the
                        // transposed call must still equal the plain call on the reversed graph
                        for res in [ResK::Path, ResK::Search] {
                            v.push((mk(kind, true, Some(root), Meth::None, res), vec![], "diffonly"));
                            v.push((mk(kind, true, Some(root), Meth::ForEach, res), vec![], "diffonly"));
                            for s in subs_t.iter().filter(|s| s.len() == 1) {
                                v.push((mk(kind, true, Some(root), Meth::Filter, res), s.clone(), "diffonly"));
                            }
                        }
                        for &t in &targets {
                            for res in [ResK::Path, ResK::Search] {
                                v.push((mk(kind, true, Some(t), Meth::None, res), vec![], "diff"));
                                v.push((mk(kind, true, Some(t), Meth::ForEach, res), vec![], "diff"));
                                for s in &subs_t {
                                    v.push((mk(kind, true, Some(t), Meth::Filter, res), s.clone(), "diff"));
                                }
                            }
                        }
                    }
                }
            }
        }
        "C09" => {
            for kind in SEARCH_KINDS {
                // a target configured beforehand must not matter to a cycle search
                for t in 0..n as K {
                    v.push((mk(kind, tr, Some(t), Meth::None, ResK::Cycle), vec![], ""));
                }
                v.push((mk(kind, tr, None, Meth::None, ResK::Cycle), vec![], ""));
                v.push((mk(kind, tr, None, Meth::ForEach, ResK::Cycle), vec![], ""));
                for s in subs {
                    v.push((mk(kind, tr, None, Meth::Filter, ResK::Cycle), s.clone(), ""));
                }
            }
        }
        "C10" => {
            for kind in ORDER_KINDS {
                for res in [ResK::Nodes, ResK::Edges] {
                    v.push((mk(kind, tr, None, Meth::None, res), vec![], ""));
                    v.push((mk(kind, tr, None, Meth::ForEach, res), vec![], ""));
                    for s in subs {
                        v.push((mk(kind, tr, None, Meth::Filter, res), s.clone(), ""));
                    }
                }
            }
        }
        _ => {}
    }
    }
    if prop == "C08" {
        // transpose() called twice is still "configured with transpose()"
        let mut tts = Vec::new();
        for (cfg, reject, mode) in &v {
            if cfg.transpose && reject.is_empty() && cfg.meth != Meth::Filter && (*mode == "diff" || *mode == "diffonly") {
                let mut c2 = *cfg;
                c2.tt = true;
                tts.push((c2, reject.clone(), *mode));
            }
        }
        v.extend(tts);
    }
    if matches!(prop, "C06" | "C07" | "C08" | "C09" | "C10") {
        // the builder calls in the other order (closure first, then transpose / target, then
        // pre()/post() for the orderings and min()/max() for the priority-first searches)
        let mut alts = Vec::new();
        for (cfg, reject, mode) in &v {
            if !matches!(prop, "C07" | "C10") && !(matches!(cfg.kind, Kind::PfsMin | Kind::PfsMax) && reject.len() <= 1) {
                continue;
            }
            if !cfg.tt && (mode.is_empty() || *mode == "diff") && (cfg.meth != Meth::None || cfg.transpose || cfg.target.is_some()) {
                let mut c2 = *cfg;
                c2.alt = true;
                alts.push((c2, reject.clone(), *mode));
            }
        }
        v.extend(alts);
    }
    if matches!(prop, "C07" | "C10") {
        let mut extra = Vec::new();
        for (cfg, reject, mode) in &v {
            if !mode.is_empty() {
                continue;
            }
            if cfg.kind.is_order() {
                extra.push((*cfg, reject.clone(), "reuse:nodes"));
                extra.push((*cfg, reject.clone(), "reuse:edges"));
            } else if cfg.res == ResK::Path {
                extra.push((*cfg, reject.clone(), "reuse:path"));
            }
        }
        v.extend(extra);
    }
    if matches!(prop, "C04" | "C05" | "C06" | "C09") {
        // a search object that has already answered one search_path (possibly
        // ending early at its target) must answer the next call like a fresh one:
        // search_path, then search_path / search / search_cycle on the same object
        let mut extra = Vec::new();
        let mut seen: Vec<(Cfg, Vec<Arc3>)> = Vec::new();
        for (cfg, reject, mode) in &v {
            if !mode.is_empty() || cfg.kind.is_order() || !reject.is_empty() || cfg.meth == Meth::Filter {
                continue;
            }
            let mut first = *cfg;
            first.res = ResK::Path;
            if seen.iter().any(|(c, r)| *c == first && r == reject) {
                continue;
            }
            seen.push((first, reject.clone()));
            let seconds: &[&'static str] = if prop == "C09" { &["reuse:cycle"] } else { &["reuse:path", "reuse:search"] };
            for sec in seconds {
                extra.push((first, reject.clone(), *sec));
            }
        }
        v.extend(extra);
    }
    v
}

/// C06, second half: comparison operators on nodes for all pairs of
/// (key, value) combinations over keys {0,1} x values {0,1,2}.
pub fn cmp_sweep<F: Fl>(job: &Job, out: &mut Out) {
    let prop = job.property.as_str();
    crate::progress::set_case(|| json!({"kind":"cmp","flavour":F::NAME}).to_string());
    for ka in 0..2u8 {
        for va in 0..3i8 {
            for kb in 0..2u8 {
                for vb in 0..3i8 {
                    out.stats.inc("evaluations");
                    out.stats.inc("cmp_pairs");
                    if let Err((code, what)) = check_cmp::<F>(ka, va, kb, vb) {
                        out.report(Violation {
                            property: prop.into(),
                            engine: "gsweep".into(),
                            flavour: F::NAME.into(),
                            class: format!("node-compare/{}", code),
                            what,
                            case: json!({"kind":"cmp","flavour":F::NAME,"a":[ka,va],"b":[kb,vb]}),
                            order: 0,
                        });
                    } else if va != vb {
                        out.stats.inc("nontrivial");
                    }
                }
            }
        }
    }
}

pub fn check_cmp<F: Fl>(ka: K, va: i8, kb: K, vb: i8) -> Result<(), Bad> {
    let a = F::node(ka, Val::new(va));
    let b = F::node(kb, Val::new(vb));
    let c = match guarded(|| F::node_cmp(&a, &b)) {
        Ok(c) => c,
        Err(f) => return bad(f.kind(), f.msg().to_string()),
    };
    let exp = match va.cmp(&vb) {
        std::cmp::Ordering::Less => -1,
        std::cmp::Ordering::Equal => 0,
        std::cmp::Ordering::Greater => 1,
    };
    let d = format!("a=(key {}, value {}), b=(key {}, value {}): {:?}", ka, va, kb, vb, c);
    if c.cmp != exp {
        return bad("ord-cmp", d);
    }
    if c.partial_cmp != Some(exp) {
        return bad("partial_cmp-differs-from-cmp", d);
    }
    if c.lt != (exp < 0) || c.le != (exp <= 0) || c.gt != (exp > 0) || c.ge != (exp >= 0) {
        return bad("relational-operators", d);
    }
    if c.eq != (ka == kb) || c.ne != (ka != kb) {
        return bad("equality-is-not-key-equality", d);
    }
    // std::cmp::max returns b unless a > b; min returns a unless b < a
    if c.max_is_b != (exp <= 0) || c.min_is_b != (exp > 0) {
        return bad("max-min", d);
    }
    Ok(())
}

pub fn sweep<F: Fl>(job: &Job, out: &mut Out) {
    if job.params.get("cmp").is_some() {
        return cmp_sweep::<F>(job, out);
    }
    let p: GParams = serde_json::from_value(job.params.clone()).expect("gsweep params");
    set_churn(p.churn);
    set_interf(p.interf);
    if p.interf > 0 {
        out.stats.inc("interference_jobs");
    }
    CHURN_FELL_BACK.with(|c| c.set(0));
    if !p.prefix.is_empty() {
        return prefixed_sweep::<F>(job, &p, out);
    }
    if p.large > 0 || p.hubs > 0 {
        return large_sweep::<F>(job, &p, out);
    }
    if let Some(k) = job.params.get("heap").and_then(|v| v.as_u64()) {
        return heap_sweep::<F>(job, k as usize, out);
    }
    if p.churn > 0 {
        out.stats.inc("churn_jobs");
    }
    let prop = job.property.as_str();
    let all_shapes = if p.iso { shapes_iso(p.n, p.max_l) } else { shapes::<F>(p.n, p.max_l) };
    out.stats.max("shapes_total", all_shapes.len() as u64);
    let mut dfs = DfsOrders::default();
    let val_sets: Vec<Vec<i8>> = if prop == "C06" && p.val_range > 0 {
        val_assignments(p.n, p.val_range)
    } else if matches!(prop, "C07" | "C08" | "C09") {
        // the priority-first kinds are also run with all node values equal (ties everywhere)
        vec![(0..p.n).map(|k| default_val(k as K)).collect(), vec![0; p.n]]
    } else {
        vec![(0..p.n).map(|k| default_val(k as K)).collect()]
    };
    for (si, conns) in all_shapes.iter().enumerate() {
        if si % job.nshards != job.shard {
            continue;
        }
        out.stats.inc("shapes");
        crate::progress::set_case(|| json!({"kind":"gsweep-shape","flavour":F::NAME,"n":p.n,"conns":conns}).to_string());
        let conns_t: Vec<(K, K)> = conns.iter().map(|(u, v)| (*v, *u)).collect();
        for (vi, vals) in val_sets.iter().enumerate() {
            let m = GModel::new(p.n, F::DIRECTED, conns, vals);
            let arcs = m.distinct_arcs(false);
            let arcs_t = if F::DIRECTED { m.distinct_arcs(true) } else { vec![] };
            if p.max_filter_arcs > 0 && arcs.len() > p.max_filter_arcs {
                out.stats.inc("shapes_skipped_filter_cap");
                continue;
            }
            let w = build_world::<F>(vals, conns);
            let wt = if prop == "C08" { Some(build_world::<F>(vals, &conns_t)) } else { None };
            for root in 0..p.n as K {
                for (cfg, reject, mode) in configs(prop, F::DIRECTED, p.n, root, &arcs, &arcs_t) {
                    if prop != "C06" && vi > 0 && !matches!(cfg.kind, Kind::PfsMin | Kind::PfsMax) {
                        continue;
                    }
                    // node values break the renaming symmetry: no priority-first kinds on iso shapes
                    if p.iso && matches!(cfg.kind, Kind::PfsMin | Kind::PfsMax) {
                        continue;
                    }
                    // changing node values only concern the priority-first kinds; the second-use
                    // differential compares call traces, whose order legitimately depends on the values
                    // (only the clause that does not mention node values is checked: every edge once, no target)
                    if interf() >= 3 && (!matches!(cfg.kind, Kind::PfsMin | Kind::PfsMax) || mode.starts_with("reuse:") || cfg.meth != Meth::ForEach || cfg.target.is_some() || cfg.res == ResK::Cycle) {
                        continue;
                    }
                    crate::progress::tick();
                    let c = GCase { n: p.n, conns: conns.clone(), vals: vals.clone(), root, cfg, reject, mode: mode.to_string(), churn: churn(), interf: interf() };
                    out.stats.inc("evaluations");
                    // with interfering searches / look-ups every case gets a graph of its own: whatever they
                    // leave behind must show in this case (and in its replay), not in a later one
                    let fresh = if interf() != 0 { Some((build_world::<F>(vals, conns), if prop == "C08" { Some(build_world::<F>(vals, &conns_t)) } else { None })) } else { None };
                    let (w, wt) = match &fresh {
                        Some((a, b)) => (a, b.as_ref()),
                        None => (&w, wt.as_ref()),
                    };
                    match check_case::<F>(prop, w, &m, &c, &mut dfs, wt) {
                        Ok((sres, tlen)) => {
                            let nontrivial = !c.reject.is_empty()
                                || match &sres {
                                    SRes::Path(Some(po)) => po.edges.len() >= 2,
                                    SRes::Nodes(v) => v.len() >= 3,
                                    SRes::Edges(v) => v.len() >= 2,
                                    _ => tlen >= 3,
                                };
                            if nontrivial {
                                out.stats.inc("nontrivial");
                            }
                            if out.stats.outcomes.len() < 5000 {
                                out.stats.outcome(format!("{:?}", sres));
                            }
                            if nontrivial && out.stats.samples.len() < 3 && conns.len() >= 2 {
                                out.stats.sample(json!({"case": c.program(F::NAME), "result": format!("{:?}", sres)}));
                            }
                        }
                        Err((class, what)) => {
                            out.report(Violation {
                                property: prop.into(),
                                engine: "gsweep".into(),
                                flavour: F::NAME.into(),
                                class,
                                what,
                                case: json!({"kind":"gsweep","flavour":F::NAME,"case":c,"program":c.program(F::NAME)}),
                                order: (conns.len() * 1000 + c.reject.len() * 10 + p.n) as u64,
                            });
                        }
                    }
                }
            }
        }
    }
    out.stats.max("dfs_order_cache_entries", 0);
    if p.churn > 0 {
        out.stats.add("churn_builds_fell_back_to_plain", CHURN_FELL_BACK.with(|c| c.get()));
    }
}

pub fn replay<F: Fl>(prop: &str, case: &Value) -> Vec<Violation> {
    let mut out = Out::new();
    let mut dfs = DfsOrders::default();
    if case["kind"] == "cmp" {
        let a: (K, i8) = serde_json::from_value(case["a"].clone()).unwrap();
        let b: (K, i8) = serde_json::from_value(case["b"].clone()).unwrap();
        if let Err((code, what)) = check_cmp::<F>(a.0, a.1, b.0, b.1) {
            out.report(Violation { property: prop.into(), engine: "gsweep".into(), flavour: F::NAME.into(), class: format!("node-compare/{}", code), what, case: case.clone(), order: 0 });
        }
        return out.viols.into_values().collect();
    }
    if case["kind"] == "gsweep-shape" {
        // coarse unit (after a hang or crash): rerun every configuration of the shape
        let n = case["n"].as_u64().unwrap() as usize;
        let conns: Vec<(K, K)> = serde_json::from_value(case["conns"].clone()).unwrap();
        let vals: Vec<i8> = (0..n).map(|k| default_val(k as K)).collect();
        let m = GModel::new(n, F::DIRECTED, &conns, &vals);
        let w = build_world::<F>(&vals, &conns);
        let conns_t: Vec<(K, K)> = conns.iter().map(|(u, v)| (*v, *u)).collect();
        let wt = build_world::<F>(&vals, &conns_t);
        let arcs = m.distinct_arcs(false);
        let arcs_t = if F::DIRECTED { m.distinct_arcs(true) } else { vec![] };
        for root in 0..n as K {
            for (cfg, reject, mode) in configs(prop, F::DIRECTED, n, root, &arcs, &arcs_t) {
                crate::progress::tick();
                let c = GCase { n, conns: conns.clone(), vals: vals.clone(), root, cfg, reject, mode: mode.to_string(), churn: churn(), interf: interf() };
                crate::progress::set_case(|| c.program(F::NAME));
                if let Err((class, what)) = check_case::<F>(prop, &w, &m, &c, &mut dfs, Some(&wt)) {
                    out.report(Violation { property: prop.into(), engine: "gsweep".into(), flavour: F::NAME.into(), class, what, case: case.clone(), order: 0 });
                }
            }
        }
        return out.viols.into_values().collect();
    }
    let c: GCase = serde_json::from_value(case["case"].clone()).expect("gsweep case");
    set_churn(c.churn.max(churn()));
    set_interf(c.interf.max(interf()));
    let m = GModel::new(c.n, F::DIRECTED, &c.conns, &c.vals);
    let w = build_world::<F>(&c.vals, &c.conns);
    let conns_t: Vec<(K, K)> = c.conns.iter().map(|(u, v)| (*v, *u)).collect();
    let wt = build_world::<F>(&c.vals, &conns_t);
    println!("  program: {}", c.program(F::NAME));
    match exec::<F>(&w, c.root, &c.cfg, &c.reject) {
        Ok((s, t)) => println!("  result : {:?}\n  closure calls: {:?}", s, t),
        Err(f) => println!("  call failed: {:?}", f),
    }
    // the check runs on graphs of its own, as in the sweep (the call above may have left something behind)
    let w = build_world::<F>(&c.vals, &c.conns);
    let wt = build_world::<F>(&c.vals, &conns_t);
    if let Err((class, what)) = check_case::<F>(prop, &w, &m, &c, &mut dfs, Some(&wt)) {
        out.report(Violation { property: prop.into(), engine: "gsweep".into(), flavour: F::NAME.into(), class, what, case: case.clone(), order: 0 });
    }
    out.viols.into_values().collect()
}
