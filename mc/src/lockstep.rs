//! C15: the sync flavours are drop-in replacements. The same generated
//! programs are run on a plain flavour and on its sync twin and the
//! transcripts (everything expressed as keys and values) must be equal.
//!
//!  * mutation programs: BFS over the plain state space, every transition
//!    applied to both objects (lock-step), returns and observations compared;
//!  * read-only programs: on every canonical shape the whole configuration
//!    lattice of the search sweeps, the queries, comparison operators,
//!    container calls, scc, DOT and serde output.

use crate::core::*;
use crate::csweep::{container, set_seed};
use crate::flavor::*;
use crate::gsweep::{build_world, configs, exec, shapes};
use crate::refmodel::GModel;
use crate::report::*;
use crate::seqx::{alphabet, Out};
use serde::{Deserialize, Serialize};
use serde_json::{json, Value};
use std::collections::{BTreeSet, HashMap};

pub type Transcript = Vec<(String, String)>;

fn strip(o: &WorldObs) -> WorldObs {
    o.iter().map(|n| NodeObs { out: n.out.clone(), inn: n.inn.clone(), sizeof: 0 }).collect()
}

fn g<T: std::fmt::Debug>(r: Result<T, Fail>) -> String {
    match r {
        Ok(v) => format!("{:?}", v),
        // an abnormal end is compared by kind only (plain: panic, sync: panic
        // or self-deadlock both mean "did not return")
        Err(_) => "<did not return>".to_string(),
    }
}

fn normalise_dot(s: &str) -> String {
    let mut lines: Vec<&str> = s.lines().map(|l| l.trim()).filter(|l| !l.is_empty()).collect();
    lines.sort();
    lines.join("|")
}

/// Serialised form up to container order: nodes sorted; edges grouped by
/// source (per-source order kept), groups sorted.
fn normalise_doc(v: &Value) -> String {
    let empty = vec![];
    let arr = v.as_array().unwrap_or(&empty);
    let mut nodes: Vec<String> = arr.first().and_then(|n| n.as_array()).unwrap_or(&empty).iter().map(|x| x.to_string()).collect();
    nodes.sort();
    let mut groups: std::collections::BTreeMap<String, Vec<String>> = Default::default();
    for e in arr.get(1).and_then(|n| n.as_array()).unwrap_or(&empty) {
        let src = e.get(0).map(|x| x.to_string()).unwrap_or_default();
        groups.entry(src).or_default().push(e.to_string());
    }
    format!("{:?} {:?}", nodes, groups)
}

/// Everything a read-only single-threaded program can observe on one shape.
pub fn read_transcript<F: Fl>(n: usize, conns: &[(K, K)], seed: u64, equal_vals: bool) -> Transcript {
    let mut t: Transcript = Vec::new();
    let vals: Vec<i8> = if equal_vals { vec![0; n] } else { (0..n).map(|k| default_val(k as K)).collect() };
    let m = GModel::new(n, F::DIRECTED, conns, &vals);
    let w = build_world::<F>(&vals, conns);
    t.push(("observe".into(), g(w.observe().map(|o| strip(&o)))));
    // queries
    for u in 0..n {
        let nd = &w.nodes[u];
        t.push((format!("degrees(n{})", u), g(guarded(|| (F::deg_out(nd), F::deg_in(nd), F::is_root(nd), F::is_leaf(nd), F::is_orphan(nd), F::key(nd), F::pval(nd), F::deref_pval(nd))))));
        for k in 0..=(n as K) {
            t.push((format!("lookups(n{},{})", u, k), g(guarded(|| (F::is_connected(nd, k), F::find_out(nd, k).map(|x| F::key(&x)), F::find_in(nd, k).map(|o| o.map(|x| F::key(&x))))))));
        }
        t.push((format!("into_iter(n{})", u), g(guarded(|| F::edges_into_iter(nd).iter().map(|e| F::edge_accessors(e)).collect::<Vec<_>>()))));
        for v in 0..n {
            t.push((format!("node-compare(n{},n{})", u, v), g(guarded(|| F::node_cmp(nd, &w.nodes[v])))));
        }
    }
    // edge equality and reversal on every pair of yielded edges
    let all_edges: Vec<F::Edge> = w.nodes.iter().flat_map(|nd| F::edges_out(nd).into_iter().chain(F::edges_in(nd))).collect();
    for (i, a) in all_edges.iter().enumerate() {
        t.push((format!("edge-reverse#{}", i), g(guarded(|| F::edge_accessors(&F::edge_reverse(a))))));
        for (j, b) in all_edges.iter().enumerate() {
            t.push((format!("edge-eq({:?},{:?})#{}#{}", F::edge_accessors(a), F::edge_accessors(b), i, j), g(guarded(|| F::edge_eq(a, b)))));
        }
    }
    // all searches and orderings with all options
    let arcs = m.distinct_arcs(false);
    let arcs_t = if F::DIRECTED { m.distinct_arcs(true) } else { vec![] };
    for root in 0..n as K {
        let mut seen = BTreeSet::new();
        for prop in ["C04", "C05", "C06", "C07", "C08", "C09", "C10"] {
            for (cfg, reject, _) in configs(prop, F::DIRECTED, n, root, &arcs, &arcs_t) {
                let key = format!("n{}.{} rejecting {:?}", root, cfg.describe(), reject);
                if !seen.insert(key.clone()) {
                    continue;
                }
                t.push((key, g(exec::<F>(&w, root, &cfg, &reject))));
            }
        }
    }
    // container calls
    let order: Vec<K> = (0..n as K).collect();
    let gr = container::<F>(&w, &order, seed);
    let keyset = |v: Vec<F::Node>| v.iter().map(F::key).collect::<BTreeSet<K>>();
    t.push(("graph.len/is_empty".into(), g(guarded(|| (F::g_len(&gr), F::g_is_empty(&gr))))));
    for k in 0..=(n as K) {
        t.push((format!("graph.contains/get({})", k), g(guarded(|| (F::g_contains(&gr, k), F::g_get(&gr, k).map(|x| (F::key(&x), F::pval(&x))))))));
    }
    for k in 0..n as K {
        t.push((format!("graph[{}]", k), g(guarded(|| F::key(&F::g_index(&gr, k))))));
    }
    t.push(("graph.to_vec".into(), g(guarded(|| keyset(F::g_to_vec(&gr))))));
    t.push(("graph.iter".into(), g(guarded(|| F::g_iter(&gr).iter().map(|(k, x)| (*k, F::key(x))).collect::<BTreeSet<_>>()))));
    t.push(("graph.roots".into(), g(guarded(|| F::g_roots(&gr).map(keyset)))));
    t.push(("graph.leaves".into(), g(guarded(|| F::g_leaves(&gr).map(keyset)))));
    t.push(("graph.orphans".into(), g(guarded(|| keyset(F::g_orphans(&gr))))));
    t.push(("graph.scc".into(), g(guarded(|| F::g_scc(&gr).map(|c| c.iter().map(|b| b.iter().map(F::key).collect::<BTreeSet<K>>()).collect::<BTreeSet<_>>())))));
    t.push(("graph.to_dot".into(), g(guarded(|| normalise_dot(&F::g_to_dot(&gr))))));
    t.push(("graph.insert-duplicate".into(), g(guarded(|| {
        let mut g2 = container::<F>(&w, &order, seed);
        let r = F::g_insert(&mut g2, F::node(0, Val::new(99)));
        (r, F::g_get(&g2, 0).map(|x| F::pval(&x)), F::g_len(&g2))
    }))));
    t.push(("graph.remove".into(), g(guarded(|| {
        let mut g2 = container::<F>(&w, &order, seed);
        let r = F::g_remove(&mut g2, 0).map(|x| F::key(&x));
        let r2 = F::g_remove(&mut g2, 0).map(|x| F::key(&x));
        (r, r2, F::g_len(&g2), F::g_contains(&g2, 0))
    }))));
    t.push(("serde.json".into(), g(guarded(|| F::g_to_json(&gr).map(|s| normalise_doc(&serde_json::from_str::<Value>(&s).unwrap_or(Value::Null)))))));
    t.push(("serde.cbor".into(), g(guarded(|| {
        F::g_to_cbor(&gr).map(|b| {
            let v: Value = serde_cbor::from_slice::<Value>(&b).unwrap_or(Value::Null);
            normalise_doc(&v)
        })
    }))));
    t.push(("serde.json.load".into(), g(guarded(|| {
        let s = F::g_to_json(&gr)?;
        set_seed(Some(seed + 1));
        let g2 = F::g_from_json(&s);
        set_seed(None);
        let g2 = g2?;
        let mut obs = Vec::new();
        for k in 0..n as K {
            let x = F::g_get(&g2, k).ok_or("missing")?;
            obs.push((F::pval(&x), F::edges_out(&x).iter().map(|e| F::edge_accessors(e)).collect::<Vec<_>>()));
        }
        Ok::<_, String>(obs)
    }))));
    t.push(("serde.json.bad-documents".into(), g(guarded(|| {
        ["[]", "[[[0,1]],[[0,5,1]]]", "[[[0,1],[0,2]],[]]", "{}", "[[[0,1]],[[0,0]]]"].iter().map(|d| F::g_from_json(d).map(|x| F::g_len(&x)).map_err(|_| "Err")).collect::<Vec<_>>()
    }))));
    t
}

/// A lighter transcript for bigger graphs: observation, every traversal kind
/// (x transpose x {no target, last node} x every terminal) from three roots with
/// a recording closure, scc, DOT and the serialised forms.
pub fn light_transcript<F: Fl>(n: usize, conns: &[(K, K)], vals: &[i8]) -> Transcript {
    let mut t: Transcript = Vec::new();
    let w = build_world::<F>(vals, conns);
    t.push(("observe".into(), g(w.observe().map(|o| strip(&o)))));
    let mut roots = vec![0usize, n / 2, n - 1];
    roots.sort();
    roots.dedup();
    for root in roots {
        for kind in crate::flavor::ALL_KINDS {
            for transpose in if F::DIRECTED { vec![false, true] } else { vec![false] } {
                let targets: Vec<Option<K>> = if kind.is_order() { vec![None] } else { vec![None, Some((n - 1) as K), Some(root as K)] };
                for target in targets {
                    let ress: Vec<ResK> = if kind.is_order() { vec![ResK::Nodes, ResK::Edges] } else if target.is_none() { vec![ResK::Search, ResK::Cycle] } else { vec![ResK::Search, ResK::Path] };
                    for res in ress {
                        for alt in [false, true] {
                            let cfg = Cfg { kind, transpose, target, meth: Meth::ForEach, res, alt, tt: false };
                            t.push((format!("n{}.{}", root, cfg.describe()), g(exec::<F>(&w, root as K, &cfg, &[]))));
                        }
                    }
                }
            }
        }
    }
    let order: Vec<K> = (0..n as K).collect();
    let gr = container::<F>(&w, &order, 5);
    t.push(("graph.scc".into(), g(guarded(|| F::g_scc(&gr).map(|c| c.iter().map(|b| b.iter().map(F::key).collect::<BTreeSet<K>>()).collect::<BTreeSet<_>>())))));
    t.push(("graph.to_dot".into(), g(guarded(|| normalise_dot(&F::g_to_dot(&gr))))));
    t.push(("serde.json".into(), g(guarded(|| F::g_to_json(&gr).map(|s| normalise_doc(&serde_json::from_str::<Value>(&s).unwrap_or(Value::Null)))))));
    t
}

/// The bigger graphs of the light mode: (name, n, conns, node values).
pub fn light_graphs(nmax: usize, heap_k: usize) -> Vec<(String, usize, Vec<(K, K)>, Vec<i8>)> {
    let mut v = Vec::new();
    for (name, n, conns) in crate::gsweep::large_graphs(nmax) {
        v.push((name.clone(), n, conns.clone(), (0..n).map(|k| default_val(k as K)).collect()));
        if n == nmax {
            v.push((format!("{} [descending values]", name), n, conns.clone(), (0..n).map(|k| (n - k) as i8).collect()));
            v.push((format!("{} [equal values]", name), n, conns, vec![0; n]));
        }
    }
    // priority-queue family (see gsweep::heap_sweep): every arrival order of distinct values
    let k = heap_k;
    let n = 1 + 2 * k;
    let mut conns: Vec<(K, K)> = (1..=k).map(|i| (0, i as K)).collect();
    conns.extend((1..=k).map(|i| (i as K, (k + i) as K)));
    let m = 2 * k;
    let mut a: Vec<i8> = (1..=m as i8).collect();
    let mut c = vec![0usize; m];
    let mut perms = vec![a.clone()];
    let mut i = 0;
    while i < m {
        if c[i] < i {
            if i % 2 == 0 {
                a.swap(0, i);
            } else {
                a.swap(c[i], i);
            }
            perms.push(a.clone());
            c[i] += 1;
            i = 0;
        } else {
            c[i] = 0;
            i += 1;
        }
    }
    for pm in perms {
        let mut vals = vec![0i8];
        vals.extend(pm);
        v.push((format!("heap{} values {:?}", k, vals), n, conns.clone(), vals));
    }
    v
}

fn first_difference(a: &Transcript, b: &Transcript) -> Option<(String, String, String)> {
    for i in 0..a.len().max(b.len()) {
        match (a.get(i), b.get(i)) {
            (Some(x), Some(y)) if x == y => {}
            (Some(x), Some(y)) => return Some((x.0.clone(), x.1.clone(), if x.0 == y.0 { y.1.clone() } else { format!("[{}] {}", y.0, y.1) })),
            (Some(x), None) => return Some((x.0.clone(), x.1.clone(), "<nothing>".into())),
            (None, Some(y)) => return Some((y.0.clone(), "<nothing>".into(), y.1.clone())),
            (None, None) => {}
        }
    }
    None
}

/// Label kind: the label with operands stripped, e.g. "n0.postorder.search_nodes".
fn label_class(label: &str) -> String {
    let label = label.trim_start_matches("[equal values] ");
    let l = label.split(" rejecting").next().unwrap_or(label);
    let l = l.split('#').next().unwrap_or(l);
    let mut out = String::new();
    let mut depth = 0;
    for c in l.chars() {
        match c {
            '(' => depth += 1,
            ')' => depth -= 1,
            _ if depth == 0 => out.push(c),
            _ => {}
        }
    }
    // drop the root index
    if out.starts_with('n') {
        let digits = out[1..].chars().take_while(|c| c.is_ascii_digit()).count();
        if digits > 0 && out[1 + digits..].starts_with('.') {
            return out[2 + digits..].to_string();
        }
    }
    out
}

#[derive(Serialize, Deserialize, Clone, Debug)]
pub struct LParams {
    pub n: usize,
    pub max_l: usize,
    /// "read" or "mutate"
    pub mode: String,
    #[serde(default)]
    pub vals: usize,
}

pub fn sweep_pair<P: Fl, S: Fl>(job: &Job, out: &mut Out) {
    let p: LParams = serde_json::from_value(job.params.clone()).expect("lockstep params");
    let prop = job.property.as_str();
    if p.mode == "read" {
        let all = shapes::<P>(p.n, p.max_l);
        for (si, conns) in all.iter().enumerate() {
            if si % job.nshards != job.shard {
                continue;
            }
            crate::progress::set_case(|| json!({"kind":"lockstep-read","flavour":S::NAME,"n":p.n,"conns":conns}).to_string());
            let mut a = read_transcript::<P>(p.n, conns, 5, false);
            crate::progress::tick();
            let mut b = read_transcript::<S>(p.n, conns, 5, false);
            // a second pass with all node values equal (ties in the priority-first searches)
            a.extend(read_transcript::<P>(p.n, conns, 5, true).into_iter().map(|(k, v)| (format!("[equal values] {}", k), v)));
            crate::progress::tick();
            b.extend(read_transcript::<S>(p.n, conns, 5, true).into_iter().map(|(k, v)| (format!("[equal values] {}", k), v)));
            out.stats.inc("shapes");
            out.stats.outcome(crate::report::digest(&format!("{:?}", a)));
            out.stats.add("evaluations", a.len() as u64);
            if conns.len() >= 2 {
                out.stats.add("nontrivial", a.len() as u64);
            }
            if out.stats.samples.len() < 2 && conns.len() == 2 {
                out.stats.sample(json!({"shape": conns, "transcript_entries": a.len(), "example": a.iter().rev().take(3).collect::<Vec<_>>()}));
            }
            if let Some((label, x, y)) = first_difference(&a, &b) {
                out.report(Violation {
                    property: prop.into(),
                    engine: "lockstep".into(),
                    flavour: S::NAME.into(),
                    class: format!("diverge/{}", label_class(&label)),
                    what: format!("graph {:?}: `{}` gives {} on {} but {} on {}", conns, label, x, P::NAME, y, S::NAME),
                    case: json!({"kind":"lockstep-read","flavour":S::NAME,"n":p.n,"conns":conns}),
                    order: (conns.len() * 10 + p.n) as u64,
                });
            }
        }
        return;
    }
    if p.mode == "light" {
        for (gi, (name, n, conns, vals)) in light_graphs(p.n, p.max_l).iter().enumerate() {
            if gi % job.nshards != job.shard {
                continue;
            }
            crate::progress::set_case(|| json!({"kind":"lockstep-light","flavour":S::NAME,"n":n,"conns":conns,"vals":vals}).to_string());
            let a = light_transcript::<P>(*n, conns, vals);
            crate::progress::tick();
            let b = light_transcript::<S>(*n, conns, vals);
            out.stats.inc("shapes");
            out.stats.max("max_nodes", *n as u64);
            out.stats.add("evaluations", a.len() as u64);
            out.stats.add("nontrivial", a.len() as u64);
            if let Some((label, x, y)) = first_difference(&a, &b) {
                out.report(Violation {
                    property: prop.into(),
                    engine: "lockstep".into(),
                    flavour: S::NAME.into(),
                    class: format!("diverge/{}", label_class(&label)),
                    what: format!("graph {} ({} nodes, edges {:?}, values {:?}): `{}` gives {} on {} but {} on {}", name, n, conns, vals, label, x, P::NAME, y, S::NAME),
                    case: json!({"kind":"lockstep-light","flavour":S::NAME,"n":n,"conns":conns,"vals":vals}),
                    order: (1000 + conns.len() * 10 + n) as u64,
                });
            }
        }
        return;
    }
    if p.mode == "loops" {
        // programs that mutate the graph from inside an edge loop / traversal closure
        use crate::loopx::{loop_kinds, run_trace, script_ops, LCase, SOp, EVERY};
        let all = shapes::<P>(p.n, p.max_l);
        let sops: Vec<SOp> = script_ops(p.n).into_iter().filter(|o| matches!(o, SOp::Mut(_))).collect();
        for (si, conns) in all.iter().enumerate() {
            if si % job.nshards != job.shard {
                continue;
            }
            out.stats.inc("shapes");
            for root in 0..p.n as K {
                for lk in loop_kinds(P::DIRECTED, p.n, root) {
                    let base = LCase { n: p.n, conns: conns.clone(), root, lk, script: vec![], reject: false };
                    let mut cases = vec![base.clone()];
                    for o in &sops {
                        if !matches!(o, SOp::Mut(Op::Connect(..)) | SOp::Mut(Op::TryConnect(..))) {
                            cases.push(LCase { script: vec![(EVERY, *o)], ..base.clone() });
                        }
                        for i in 0..(conns.len().max(1) * 2) {
                            cases.push(LCase { script: vec![(i, *o)], ..base.clone() });
                        }
                    }
                    for c in cases {
                        crate::progress::tick();
                        crate::progress::set_case(|| json!({"kind":"lockstep-loop","flavour":S::NAME,"case":c}).to_string());
                        let a = run_trace::<P>(&c);
                        let b = run_trace::<S>(&c);
                        out.stats.inc("evaluations");
                        out.stats.inc("transitions");
                        if !c.script.is_empty() {
                            out.stats.inc("nontrivial");
                        }
                        if a != b {
                            out.report(Violation {
                                property: prop.into(),
                                engine: "lockstep".into(),
                                flavour: S::NAME.into(),
                                class: format!("diverge/loop/{}/{}", c.lk.name(), c.script.first().map_or("no-script", |s| s.1.kind())),
                                what: format!("{}: {} observes {}; {} observes {}", c.program("program"), P::NAME, a, S::NAME, b),
                                case: json!({"kind":"lockstep-loop","flavour":S::NAME,"n":p.n,"case":c}),
                                order: (conns.len() * 100 + c.script.len() * 10 + c.script.first().map_or(0, |s| if s.0 == EVERY { 50 } else { s.0 })) as u64,
                            });
                        }
                    }
                }
            }
        }
        return;
    }
    if p.mode == "deep" {
        // every history of <= max_l operations, unmerged, on both flavours
        let alpha = alphabet(p.n, 1);
        let depth = p.max_l;
        let mut h: Vec<Op> = Vec::new();
        let mut idx: Vec<usize> = vec![0];
        let mut first: Vec<usize> = Vec::new();
        loop {
            let d = h.len();
            let i = *idx.last().unwrap();
            if i >= alpha.len() {
                idx.pop();
                if h.pop().is_none() {
                    break;
                }
                first.truncate(h.len());
                continue;
            }
            *idx.last_mut().unwrap() += 1;
            if d == 1 && (first[0] * alpha.len() + i) % job.nshards != job.shard {
                continue;
            }
            let e = (d + 1) as E;
            let op = match alpha[i] {
                Op::Connect(u, v, _) => Op::Connect(u, v, e),
                Op::TryConnect(u, v, _) => Op::TryConnect(u, v, e),
                o => o,
            };
            crate::progress::tick();
            let (wp, ws) = match (World::<P>::build(p.n, &h), World::<S>::build(p.n, &h)) {
                (Ok(a), Ok(b)) => (a, b),
                _ => continue,
            };
            let (rp, rs) = (wp.apply(&op), ws.apply(&op));
            out.stats.inc("transitions");
            out.stats.inc("evaluations");
            out.stats.inc("histories_unmerged");
            if d >= 2 {
                out.stats.inc("nontrivial");
            }
            let same_ret = match (&rp, &rs) {
                (Ret::Fail(_), Ret::Fail(_)) => true,
                (a, b) => a == b,
            };
            let (op_, os_) = (wp.observe().map(|o| strip(&o)), ws.observe().map(|o| strip(&o)));
            let same_obs = match (&op_, &os_) {
                (Ok(a), Ok(b)) => a == b,
                (Err(_), Err(_)) => true,
                _ => false,
            };
            if !same_ret || (!rp.is_fail() && !same_obs) {
                out.report(Violation {
                    property: prop.into(),
                    engine: "lockstep".into(),
                    flavour: S::NAME.into(),
                    class: format!("diverge/{}{}", op.name(), if op.is_self() { "/u==v" } else { "" }),
                    what: format!("after [{}] (executed on one object), {}: {} returns {:?} and leaves {:?}; {} returns {:?} and leaves {:?}", show_history(&h), op.show(), P::NAME, rp, op_, S::NAME, rs, os_),
                    case: json!({"kind":"lockstep-mutate","flavour":S::NAME,"n":p.n,"history":h,"op":op}),
                    order: (h.len() * 10 + p.n) as u64,
                });
                continue;
            }
            if !rp.is_fail() && d + 1 < depth {
                h.push(op);
                first.push(i);
                idx.push(0);
            }
        }
        return;
    }
    // mutate: lock-step BFS over the plain flavour's state space
    let alpha = alphabet(p.n, p.vals);
    let w0 = World::<P>::new(p.n);
    let s0 = w0.observe().expect("obs");
    let mut index: HashMap<WorldObs, usize> = HashMap::new();
    let mut hist: Vec<Vec<Op>> = vec![vec![]];
    index.insert(s0, 0);
    let mut cur = 0;
    while cur < hist.len() {
        let h = hist[cur].clone();
        cur += 1;
        crate::progress::set_case(|| json!({"kind":"lockstep-mutate","flavour":S::NAME,"n":p.n,"history":h}).to_string());
        out.stats.inc("states");
        for op in &alpha {
            let (wp, ws) = match (World::<P>::build(p.n, &h), World::<S>::build(p.n, &h)) {
                (Ok(a), Ok(b)) => (a, b),
                _ => {
                    hassert!(false, "history of a reached state failed");
                    unreachable!()
                }
            };
            let pre = wp.observe().expect("obs");
            if matches!(op, Op::Connect(..) | Op::TryConnect(..)) && live_edges(P::DIRECTED, &pre) >= p.max_l {
                continue;
            }
            crate::progress::tick();
            let (rp, rs) = (wp.apply(op), ws.apply(op));
            out.stats.inc("transitions");
            out.stats.inc("evaluations");
            if !matches!(op, Op::Connect(..)) {
                out.stats.inc("nontrivial");
            }
            let same_ret = match (&rp, &rs) {
                (Ret::Fail(_), Ret::Fail(_)) => true,
                (a, b) => a == b,
            };
            let (op_, os_) = (wp.observe().map(|o| strip(&o)), ws.observe().map(|o| strip(&o)));
            let same_obs = match (&op_, &os_) {
                (Ok(a), Ok(b)) => a == b,
                (Err(_), Err(_)) => true,
                _ => false,
            };
            if !same_ret || (!rp.is_fail() && !same_obs) {
                out.report(Violation {
                    property: prop.into(),
                    engine: "lockstep".into(),
                    flavour: S::NAME.into(),
                    class: format!("diverge/{}{}", op.name(), if op.is_self() { "/u==v" } else { "" }),
                    what: format!("after [{}], {}: {} returns {:?} and leaves {:?}; {} returns {:?} and leaves {:?}", show_history(&h), op.show(), P::NAME, rp, op_, S::NAME, rs, os_),
                    case: json!({"kind":"lockstep-mutate","flavour":S::NAME,"n":p.n,"history":h,"op":op}),
                    order: (h.len() * 10 + p.n) as u64,
                });
                continue;
            }
            if rp.is_fail() {
                continue;
            }
            if let Ok(post) = wp.observe() {
                if !index.contains_key(&post) && live_edges(P::DIRECTED, &post) <= p.max_l {
                    index.insert(post, hist.len());
                    let mut nh = h.clone();
                    nh.push(*op);
                    hist.push(nh);
                }
            }
        }
    }
}

pub fn replay_pair<P: Fl, S: Fl>(prop: &str, case: &Value) -> Vec<Violation> {
    let mut out = Out::new();
    let n = case["n"].as_u64().unwrap() as usize;
    if case["kind"] == "lockstep-light" {
        let conns: Vec<(K, K)> = serde_json::from_value(case["conns"].clone()).unwrap();
        let vals: Vec<i8> = serde_json::from_value(case["vals"].clone()).unwrap();
        let a = light_transcript::<P>(n, &conns, &vals);
        let b = light_transcript::<S>(n, &conns, &vals);
        println!("  {} transcript entries", a.len());
        if let Some((label, x, y)) = first_difference(&a, &b) {
            out.report(Violation { property: prop.into(), engine: "lockstep".into(), flavour: S::NAME.into(), class: format!("diverge/{}", label_class(&label)), what: format!("`{}` gives {} on {} but {} on {}", label, x, P::NAME, y, S::NAME), case: case.clone(), order: 0 });
        }
        return out.viols.into_values().collect();
    }
    if case["kind"] == "lockstep-loop" {
        let c: crate::loopx::LCase = serde_json::from_value(case["case"].clone()).expect("loop case");
        let a = crate::loopx::run_trace::<P>(&c);
        let b = crate::loopx::run_trace::<S>(&c);
        println!("  {}\n  {}: {}\n  {}: {}", c.program("program"), P::NAME, a, S::NAME, b);
        if a != b {
            out.report(Violation { property: prop.into(), engine: "lockstep".into(), flavour: S::NAME.into(), class: format!("diverge/loop/{}/{}", c.lk.name(), c.script.first().map_or("no-script", |s| s.1.kind())), what: format!("{} observes {}; {} observes {}", P::NAME, a, S::NAME, b), case: case.clone(), order: 0 });
        }
        return out.viols.into_values().collect();
    }
    if case["kind"] == "lockstep-read" {
        let conns: Vec<(K, K)> = serde_json::from_value(case["conns"].clone()).unwrap();
        let mut a = read_transcript::<P>(n, &conns, 5, false);
        let mut b = read_transcript::<S>(n, &conns, 5, false);
        a.extend(read_transcript::<P>(n, &conns, 5, true).into_iter().map(|(k, v)| (format!("[equal values] {}", k), v)));
        b.extend(read_transcript::<S>(n, &conns, 5, true).into_iter().map(|(k, v)| (format!("[equal values] {}", k), v)));
        println!("  graph {:?}: {} transcript entries", conns, a.len());
        if let Some((label, x, y)) = first_difference(&a, &b) {
            out.report(Violation { property: prop.into(), engine: "lockstep".into(), flavour: S::NAME.into(), class: format!("diverge/{}", label_class(&label)), what: format!("`{}` gives {} on {} but {} on {}", label, x, P::NAME, y, S::NAME), case: case.clone(), order: 0 });
        }
    } else {
        let h: Vec<Op> = serde_json::from_value(case["history"].clone()).unwrap();
        let op: Op = match serde_json::from_value(case["op"].clone()) {
            Ok(op) => op,
            Err(_) => return vec![],
        };
        let (wp, ws) = (World::<P>::build(n, &h).ok().unwrap(), World::<S>::build(n, &h).ok().unwrap());
        let (rp, rs) = (wp.apply(&op), ws.apply(&op));
        let (op_, os_) = (wp.observe().map(|o| strip(&o)), ws.observe().map(|o| strip(&o)));
        println!("  {}: {:?} -> {:?}\n  {}: {:?} -> {:?}", P::NAME, rp, op_, S::NAME, rs, os_);
        let same_ret = match (&rp, &rs) {
            (Ret::Fail(_), Ret::Fail(_)) => true,
            (a, b) => a == b,
        };
        let same_obs = match (&op_, &os_) {
            (Ok(a), Ok(b)) => a == b,
            (Err(_), Err(_)) => true,
            _ => false,
        };
        if !same_ret || (!rp.is_fail() && !same_obs) {
            out.report(Violation { property: prop.into(), engine: "lockstep".into(), flavour: S::NAME.into(), class: format!("diverge/{}{}", op.name(), if op.is_self() { "/u==v" } else { "" }), what: "the two flavours diverge".into(), case: case.clone(), order: 0 });
        }
    }
    out.viols.into_values().collect()
}
