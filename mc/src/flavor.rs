//! The four gdsl flavours behind one trait, so that every engine is written once.
//!
//! Everything is instantiated at `<K = u8, N = Val, E = i8>`. Results are
//! converted to plain data (keys and values), the vocabulary the properties are
//! stated in.

use serde::{Deserialize, Serialize};
use std::cell::RefCell;
use std::sync::atomic::{AtomicUsize, Ordering as AO};
use std::sync::Arc;

pub type K = u8;

thread_local! {
    /// 0: keys hash like u8; 1: all keys hash alike (every two keys collide)
    pub static COLLIDE: std::cell::Cell<u8> = const { std::cell::Cell::new(0) };
}
pub fn set_collide(c: u8) {
    COLLIDE.with(|x| x.set(c));
}
pub fn collide() -> u8 {
    COLLIDE.with(|x| x.get())
}

/// The key type the library sees. It is `u8` in everything but its `Hash`:
/// in collide mode every key hashes alike, so that code which decides identity
/// by hash instead of `Eq` (the library only requires `K: Hash + Eq`, and Hash
/// need not be injective) is exposed. The harness speaks `K = u8` everywhere;
/// the flavour adapter wraps and unwraps.
#[derive(Clone, Copy, Debug, PartialEq, Eq, PartialOrd, Ord, Serialize, Deserialize)]
#[serde(transparent)]
pub struct HK(pub u8);
impl std::hash::Hash for HK {
    fn hash<H: std::hash::Hasher>(&self, h: &mut H) {
        if collide() == 0 {
            self.0.hash(h)
        } else {
            0u8.hash(h)
        }
    }
}
impl std::fmt::Display for HK {
    fn fmt(&self, f: &mut std::fmt::Formatter<'_>) -> std::fmt::Result {
        self.0.fmt(f)
    }
}
pub type E = i8;
/// An edge as reported by the library: (source key, target key, value).
pub type Arc3 = (K, K, E);

// ---------------------------------------------------------------------------
// Node payload: a priority (the node "value" of the properties) plus an
// optional drop tracker (C19).
// ---------------------------------------------------------------------------

#[derive(Default)]
pub struct Registry {
    /// drops[id] = number of times the ORIGINAL payload of node `id` was dropped
    pub drops: [AtomicUsize; 8],
    /// clones of payloads created / dropped (the library may clone values)
    pub clones_made: AtomicUsize,
    pub clones_dropped: AtomicUsize,
}

impl Registry {
    pub fn dropped(&self, id: usize) -> usize {
        self.drops[id].load(AO::SeqCst)
    }
}

pub struct Tracked {
    pub id: u8,
    pub original: bool,
    pub reg: Arc<Registry>,
}

impl Clone for Tracked {
    fn clone(&self) -> Self {
        self.reg.clones_made.fetch_add(1, AO::SeqCst);
        Tracked {
            id: self.id,
            original: false,
            reg: self.reg.clone(),
        }
    }
}

impl Drop for Tracked {
    fn drop(&mut self) {
        if self.original {
            self.reg.drops[self.id as usize].fetch_add(1, AO::SeqCst);
        } else {
            self.reg.clones_dropped.fetch_add(1, AO::SeqCst);
        }
    }
}

pub struct Val {
    pub p: i8,
    pub t: Option<Tracked>,
    /// added to `p` in every comparison; changed only by the closures of the
    /// "values change during the traversal" mode of C07 (interference 3 / 4)
    pub bump: std::sync::atomic::AtomicI8,
}

impl Clone for Val {
    fn clone(&self) -> Val {
        Val { p: self.p, t: self.t.clone(), bump: std::sync::atomic::AtomicI8::new(self.bump.load(AO::SeqCst)) }
    }
}

impl Val {
    pub fn new(p: i8) -> Val {
        Val { p, t: None, bump: std::sync::atomic::AtomicI8::new(0) }
    }
    fn eff(&self) -> i16 {
        self.p as i16 + self.bump.load(AO::SeqCst) as i16
    }
    pub fn tracked(p: i8, id: u8, reg: &Arc<Registry>) -> Val {
        Val {
            p,
            bump: std::sync::atomic::AtomicI8::new(0),
            t: Some(Tracked {
                id,
                original: true,
                reg: reg.clone(),
            }),
        }
    }
}

impl PartialEq for Val {
    fn eq(&self, o: &Val) -> bool {
        self.eff() == o.eff()
    }
}
impl Eq for Val {}
impl PartialOrd for Val {
    fn partial_cmp(&self, o: &Val) -> Option<std::cmp::Ordering> {
        Some(self.eff().cmp(&o.eff()))
    }
}
impl Ord for Val {
    fn cmp(&self, o: &Val) -> std::cmp::Ordering {
        self.eff().cmp(&o.eff())
    }
}
impl std::fmt::Display for Val {
    fn fmt(&self, f: &mut std::fmt::Formatter) -> std::fmt::Result {
        write!(f, "{}", self.p)
    }
}
impl Serialize for Val {
    fn serialize<S: serde::Serializer>(&self, s: S) -> Result<S::Ok, S::Error> {
        s.serialize_i8(self.p)
    }
}
impl<'de> Deserialize<'de> for Val {
    fn deserialize<D: serde::Deserializer<'de>>(d: D) -> Result<Val, D::Error> {
        i8::deserialize(d).map(Val::new)
    }
}

// ---------------------------------------------------------------------------
// Plain-data vocabulary
// ---------------------------------------------------------------------------

#[derive(Clone, Copy, Debug, PartialEq, Eq, Hash, Serialize, Deserialize, PartialOrd, Ord)]
pub enum ErrK {
    NotFound,
    Exists,
}

pub fn errk(e: gdsl::error::Error) -> ErrK {
    match e {
        gdsl::error::Error::EdgeNotFound => ErrK::NotFound,
        gdsl::error::Error::EdgeAlreadyExists => ErrK::Exists,
    }
}

#[derive(Clone, Copy, Debug, PartialEq, Eq, Hash, Serialize, Deserialize, PartialOrd, Ord)]
pub enum Kind {
    Bfs,
    Dfs,
    PfsMin,
    PfsMax,
    Pre,
    Post,
}
pub const SEARCH_KINDS: [Kind; 4] = [Kind::Bfs, Kind::Dfs, Kind::PfsMin, Kind::PfsMax];
pub const ORDER_KINDS: [Kind; 2] = [Kind::Pre, Kind::Post];
pub const ALL_KINDS: [Kind; 6] = [
    Kind::Bfs,
    Kind::Dfs,
    Kind::PfsMin,
    Kind::PfsMax,
    Kind::Pre,
    Kind::Post,
];

impl Kind {
    pub fn is_order(self) -> bool {
        matches!(self, Kind::Pre | Kind::Post)
    }
    pub fn name(self) -> &'static str {
        match self {
            Kind::Bfs => "bfs",
            Kind::Dfs => "dfs",
            Kind::PfsMin => "pfs-min",
            Kind::PfsMax => "pfs-max",
            Kind::Pre => "preorder",
            Kind::Post => "postorder",
        }
    }
}

#[derive(Clone, Copy, Debug, PartialEq, Eq, Hash, Serialize, Deserialize, PartialOrd, Ord)]
pub enum ResK {
    Search,
    Path,
    Cycle,
    Nodes,
    Edges,
}

impl ResK {
    pub fn name(self) -> &'static str {
        match self {
            ResK::Search => "search",
            ResK::Path => "search_path",
            ResK::Cycle => "search_cycle",
            ResK::Nodes => "search_nodes",
            ResK::Edges => "search_edges",
        }
    }
}

#[derive(Clone, Copy, Debug, PartialEq, Eq, Hash, Serialize, Deserialize, PartialOrd, Ord)]
pub enum Meth {
    None,
    ForEach,
    Filter,
}

#[derive(Clone, Copy, Debug, PartialEq, Eq, Hash, Serialize, Deserialize)]
pub struct Cfg {
    pub kind: Kind,
    pub transpose: bool,
    pub target: Option<K>,
    pub meth: Meth,
    pub res: ResK,
    /// alternative order of the builder calls: closure first, then
    /// transpose(), then target(), then (undirected orderings) pre()/post()
    #[serde(default)]
    pub alt: bool,
    /// `transpose()` is called twice on the builder (it is a setting, not a
    /// toggle: the search must still run on the reversed graph)
    #[serde(default)]
    pub tt: bool,
}

impl Cfg {
    /// Is this combination offered by the API of the flavour?
    pub fn valid(&self, directed: bool) -> bool {
        if self.transpose && !directed {
            return false;
        }
        if self.kind.is_order() {
            matches!(self.res, ResK::Nodes | ResK::Edges) && self.target.is_none()
        } else {
            matches!(self.res, ResK::Search | ResK::Path | ResK::Cycle)
        }
    }
    pub fn describe(&self) -> String {
        format!(
            "{}{}{}{}{}.{}",
            if self.alt { "[closure-first builder order] " } else if self.tt { "[transpose() called twice] " } else { "" },
            self.kind.name(),
            if self.transpose { ".transpose" } else { "" },
            match self.target {
                Some(t) => format!(".target({})", t),
                None => String::new(),
            },
            match self.meth {
                Meth::None => "",
                Meth::ForEach => ".for_each",
                Meth::Filter => ".filter",
            },
            self.res.name()
        )
    }
}

/// Everything a `Path` lets a caller see.
#[derive(Clone, Debug, PartialEq, Eq, Hash, Serialize, Deserialize)]
pub struct PathObs {
    pub edges: Vec<Arc3>,
    pub len: usize,
    pub iter_nodes: Vec<K>,
    pub to_vec_nodes: Vec<K>,
    pub iter_edges: Vec<Arc3>,
    pub to_vec_edges: Vec<Arc3>,
    pub indexed: Vec<Arc3>,
    pub first_edge: Option<Arc3>,
    pub last_edge: Option<Arc3>,
    pub first_node: Option<K>,
    pub last_node: Option<K>,
    /// values of the nodes of iter_nodes, as seen through the path's handles
    pub node_vals: Vec<i8>,
}

#[derive(Clone, Debug, PartialEq, Eq, Hash, Serialize, Deserialize)]
pub enum SRes {
    Node(Option<(K, i8)>),
    Path(Option<PathObs>),
    Nodes(Vec<(K, i8)>),
    Edges(Vec<Arc3>),
}

/// Result of comparing two nodes with every operator.
#[derive(Clone, Debug, PartialEq, Eq, Hash, Serialize, Deserialize)]
pub struct CmpObs {
    pub cmp: i8,
    pub partial_cmp: Option<i8>,
    pub lt: bool,
    pub le: bool,
    pub gt: bool,
    pub ge: bool,
    pub eq: bool,
    pub ne: bool,
    pub max_is_b: bool,
    pub min_is_b: bool,
}

fn ord_i8(o: std::cmp::Ordering) -> i8 {
    match o {
        std::cmp::Ordering::Less => -1,
        std::cmp::Ordering::Equal => 0,
        std::cmp::Ordering::Greater => 1,
    }
}

pub type Attrs = Option<Vec<(String, String)>>;

// ---------------------------------------------------------------------------
// The flavour trait
// ---------------------------------------------------------------------------

pub trait Fl: 'static + Sized {
    const NAME: &'static str;
    const DIRECTED: bool;
    const SYNC: bool;
    type Node: Clone;
    type Edge: Clone;
    type Path;
    type Graph;

    fn node(k: K, v: Val) -> Self::Node;
    fn key(n: &Self::Node) -> K;
    fn pval(n: &Self::Node) -> i8;
    /// change the node's value (as comparisons see it) by `d`
    fn bump(n: &Self::Node, d: i8);
    fn deref_pval(n: &Self::Node) -> i8;

    fn connect(a: &Self::Node, b: &Self::Node, e: E);
    fn try_connect(a: &Self::Node, b: &Self::Node, e: E) -> Result<(), ErrK>;
    fn disconnect(a: &Self::Node, k: K) -> Result<E, ErrK>;
    fn isolate(a: &Self::Node);

    /// directed: iter_out(); undirected: iter()
    fn edges_out(n: &Self::Node) -> Vec<Self::Edge>;
    /// directed: iter_in(); undirected: empty
    fn edges_in(n: &Self::Node) -> Vec<Self::Edge>;
    /// `for e in &n`
    fn edges_into_iter(n: &Self::Node) -> Vec<Self::Edge>;
    /// Run an edge loop by hand: `body` is called with each yielded edge.
    /// which: 0 = edges_out, 1 = edges_in, 2 = `for e in &n`. `budget` bounds
    /// the number of iterations; returns false if the budget was exhausted.
    fn edge_loop(
        n: &Self::Node,
        which: u8,
        budget: usize,
        body: &mut dyn FnMut(&Self::Edge),
    ) -> bool;
    fn edge_parts(e: &Self::Edge) -> (Self::Node, Self::Node, E);
    fn edge_accessors(e: &Self::Edge) -> (K, K, E);
    fn edge_reverse(e: &Self::Edge) -> Self::Edge;
    /// `a == b` on edges
    fn edge_eq(a: &Self::Edge, b: &Self::Edge) -> bool;

    /// directed: out_degree; undirected: degree
    fn deg_out(n: &Self::Node) -> usize;
    /// directed: in_degree; undirected: None
    fn deg_in(n: &Self::Node) -> Option<usize>;
    fn is_root(n: &Self::Node) -> Option<bool>;
    fn is_leaf(n: &Self::Node) -> Option<bool>;
    fn is_orphan(n: &Self::Node) -> bool;
    fn is_connected(n: &Self::Node, k: K) -> bool;
    /// directed: find_outbound; undirected: find_adjacent
    fn find_out(n: &Self::Node, k: K) -> Option<Self::Node>;
    /// directed: find_inbound; undirected: None
    fn find_in(n: &Self::Node, k: K) -> Option<Option<Self::Node>>;
    fn sizeof(n: &Self::Node) -> usize;
    fn node_cmp(a: &Self::Node, b: &Self::Node) -> CmpObs;

    /// Run one search / ordering. `cb` receives every edge handed to the
    /// for_each / filter closure; its return value is the filter verdict
    /// (ignored for for_each). Returns the plain result and every node handle
    /// mentioned by the result.
    fn search(
        root: &Self::Node,
        cfg: &Cfg,
        cb: &mut dyn FnMut(&Self::Edge) -> bool,
    ) -> (SRes, Vec<Self::Node>);
    /// Same as `search` with ResK::Path / ResK::Cycle but hands out the Path object.
    fn search_path_obj(
        root: &Self::Node,
        cfg: &Cfg,
        cb: &mut dyn FnMut(&Self::Edge) -> bool,
    ) -> Option<Self::Path>;
    /// Build the search object once and run two terminal calls on it (first
    /// `cfg.res`, then `second`); `between` is called in between. Only for the
    /// terminals that leave the object usable: search_path for the searches,
    /// search_nodes / search_edges for the orderings.
    fn search_reuse(
        root: &Self::Node,
        cfg: &Cfg,
        second: ResK,
        between: &mut dyn FnMut(),
        cb: &mut dyn FnMut(&Self::Edge) -> bool,
    ) -> (SRes, SRes);
    fn path_obs(p: &Self::Path) -> PathObs;
    fn path_nodes(p: &Self::Path) -> Vec<Self::Node>;

    // --- container ---
    fn g_new() -> Self::Graph;
    fn g_default() -> Self::Graph;
    fn g_with_capacity(c: usize) -> Option<Self::Graph>;
    fn g_insert(g: &mut Self::Graph, n: Self::Node) -> bool;
    fn g_remove(g: &mut Self::Graph, k: K) -> Option<Self::Node>;
    fn g_get(g: &Self::Graph, k: K) -> Option<Self::Node>;
    /// `g[k]` (panics when absent, by HashMap's contract)
    fn g_index(g: &Self::Graph, k: K) -> Self::Node;
    /// `g[&k]` where offered
    fn g_index_ref(g: &Self::Graph, k: K) -> Option<Self::Node>;
    fn g_contains(g: &Self::Graph, k: K) -> bool;
    fn g_len(g: &Self::Graph) -> usize;
    fn g_is_empty(g: &Self::Graph) -> bool;
    fn g_to_vec(g: &Self::Graph) -> Vec<Self::Node>;
    fn g_iter(g: &Self::Graph) -> Vec<(K, Self::Node)>;
    fn g_roots(g: &Self::Graph) -> Option<Vec<Self::Node>>;
    fn g_leaves(g: &Self::Graph) -> Option<Vec<Self::Node>>;
    fn g_orphans(g: &Self::Graph) -> Vec<Self::Node>;
    fn g_scc(g: &Self::Graph) -> Option<Vec<Vec<Self::Node>>>;
    fn g_to_dot(g: &Self::Graph) -> String;
    fn g_to_dot_attr(
        g: &Self::Graph,
        gattr: &dyn Fn() -> Attrs,
        nattr: &dyn Fn(K) -> Attrs,
        eattr: &dyn Fn(K, K, E) -> Attrs,
    ) -> Option<String>;
    fn g_sizeof(g: &Self::Graph) -> Option<usize>;
    fn g_to_json(g: &Self::Graph) -> Result<String, String>;
    fn g_from_json(s: &str) -> Result<Self::Graph, String>;
    fn g_to_cbor(g: &Self::Graph) -> Result<Vec<u8>, String>;
    fn g_from_cbor(b: &[u8]) -> Result<Self::Graph, String>;
    /// Serialise and read back through another wire format / entry point of
    /// the two serde implementations: "cbor-packed", "cbor-selfdesc",
    /// "cbor-reader", "json-value", "json-pretty-reader", "json-bytes", and "flat" (the
    /// harness's own non-self-describing format, flatfmt.rs).
    /// Returns the new graph and a printable form of the document.
    fn g_roundtrip_fmt(g: &Self::Graph, fmt: &str) -> Result<(Self::Graph, String), String>;
    /// Drop the container on another thread where the flavour allows it
    /// (sync flavours), otherwise here.
    fn g_drop_elsewhere(g: Self::Graph);
}

// ---------------------------------------------------------------------------
// Implementation macros
// ---------------------------------------------------------------------------

macro_rules! common_items {
    ($m:ident) => {
        type Node = gdsl::$m::Node<HK, Val, E>;
        type Edge = gdsl::$m::Edge<HK, Val, E>;
        type Path = PathBox<gdsl::$m::Node<HK, Val, E>>;
        type Graph = gdsl::$m::Graph<HK, Val, E>;

        fn node(k: K, v: Val) -> Self::Node {
            gdsl::$m::Node::new(HK(k), v)
        }
        fn key(n: &Self::Node) -> K {
            n.key().0
        }
        fn bump(n: &Self::Node, d: i8) {
            n.value().bump.fetch_add(d, AO::SeqCst);
        }
        fn pval(n: &Self::Node) -> i8 {
            n.value().p
        }
        fn deref_pval(n: &Self::Node) -> i8 {
            // through Deref<Target = N>
            n.p
        }
        fn connect(a: &Self::Node, b: &Self::Node, e: E) {
            a.connect(b, e)
        }
        fn try_connect(a: &Self::Node, b: &Self::Node, e: E) -> Result<(), ErrK> {
            a.try_connect(b, e).map_err(errk)
        }
        fn disconnect(a: &Self::Node, k: K) -> Result<E, ErrK> {
            a.disconnect(&HK(k)).map_err(errk)
        }
        fn isolate(a: &Self::Node) {
            a.isolate()
        }
        fn edges_into_iter(n: &Self::Node) -> Vec<Self::Edge> {
            let mut v = Vec::new();
            for e in n {
                v.push(e);
            }
            v
        }
        fn edge_parts(e: &Self::Edge) -> (Self::Node, Self::Node, E) {
            let gdsl::$m::Edge(u, v, x) = e.clone();
            (u, v, x)
        }
        fn edge_accessors(e: &Self::Edge) -> (K, K, E) {
            (e.source().key().0, e.target().key().0, *e.value())
        }
        fn edge_reverse(e: &Self::Edge) -> Self::Edge {
            e.reverse()
        }
        fn edge_eq(a: &Self::Edge, b: &Self::Edge) -> bool {
            a == b
        }
        fn is_orphan(n: &Self::Node) -> bool {
            n.is_orphan()
        }
        fn is_connected(n: &Self::Node, k: K) -> bool {
            n.is_connected(&HK(k))
        }
        fn sizeof(n: &Self::Node) -> usize {
            n.sizeof()
        }
        fn node_cmp(a: &Self::Node, b: &Self::Node) -> CmpObs {
            CmpObs {
                cmp: ord_i8(Ord::cmp(a, b)),
                partial_cmp: PartialOrd::partial_cmp(a, b).map(ord_i8),
                lt: a < b,
                le: a <= b,
                gt: a > b,
                ge: a >= b,
                eq: a == b,
                ne: a != b,
                max_is_b: {
                    let m = std::cmp::max(a.clone(), b.clone());
                    std::ptr::eq(m.value(), b.value())
                },
                min_is_b: {
                    let m = std::cmp::min(a.clone(), b.clone());
                    std::ptr::eq(m.value(), b.value())
                },
            }
        }
        fn path_obs(p: &Self::Path) -> PathObs {
            (p.obs)()
        }
        fn path_nodes(p: &Self::Path) -> Vec<Self::Node> {
            (p.nodes)()
        }

        fn g_new() -> Self::Graph {
            gdsl::$m::Graph::new()
        }
        fn g_default() -> Self::Graph {
            Default::default()
        }
        fn g_insert(g: &mut Self::Graph, n: Self::Node) -> bool {
            g.insert(n)
        }
        fn g_remove(g: &mut Self::Graph, k: K) -> Option<Self::Node> {
            g.remove(&HK(k))
        }
        fn g_get(g: &Self::Graph, k: K) -> Option<Self::Node> {
            g.get(&HK(k))
        }
        fn g_index(g: &Self::Graph, k: K) -> Self::Node {
            g[HK(k)].clone()
        }
        fn g_contains(g: &Self::Graph, k: K) -> bool {
            g.contains(&HK(k))
        }
        fn g_len(g: &Self::Graph) -> usize {
            g.len()
        }
        fn g_is_empty(g: &Self::Graph) -> bool {
            g.is_empty()
        }
        fn g_to_vec(g: &Self::Graph) -> Vec<Self::Node> {
            g.to_vec()
        }
        fn g_iter(g: &Self::Graph) -> Vec<(K, Self::Node)> {
            g.iter().map(|(k, n)| (k.0, n.clone())).collect()
        }
        fn g_orphans(g: &Self::Graph) -> Vec<Self::Node> {
            g.orphans()
        }
        fn g_to_dot(g: &Self::Graph) -> String {
            g.to_dot()
        }
        fn g_to_json(g: &Self::Graph) -> Result<String, String> {
            serde_json::to_string(g).map_err(|e| e.to_string())
        }
        fn g_from_json(s: &str) -> Result<Self::Graph, String> {
            serde_json::from_str(s).map_err(|e| e.to_string())
        }
        fn g_to_cbor(g: &Self::Graph) -> Result<Vec<u8>, String> {
            serde_cbor::to_vec(g).map_err(|e| e.to_string())
        }
        fn g_from_cbor(b: &[u8]) -> Result<Self::Graph, String> {
            serde_cbor::from_slice(b).map_err(|e| e.to_string())
        }
        fn g_roundtrip_fmt(g: &Self::Graph, fmt: &str) -> Result<(Self::Graph, String), String> {
            let es = |e: &dyn std::fmt::Display| e.to_string();
            match fmt {
                "cbor-packed" => {
                    let b = serde_cbor::ser::to_vec_packed(g).map_err(|e| es(&e))?;
                    Ok((serde_cbor::from_slice(&b).map_err(|e| es(&e))?, format!("{:?}", b)))
                }
                "cbor-selfdesc" => {
                    let mut b = Vec::new();
                    {
                        let mut ser = serde_cbor::Serializer::new(&mut b);
                        ser.self_describe().map_err(|e| es(&e))?;
                        serde::Serialize::serialize(g, &mut ser).map_err(|e| es(&e))?;
                    }
                    Ok((serde_cbor::from_slice(&b).map_err(|e| es(&e))?, format!("{:?}", b)))
                }
                "cbor-reader" => {
                    let mut b = Vec::new();
                    serde_cbor::to_writer(&mut b, g).map_err(|e| es(&e))?;
                    Ok((serde_cbor::from_reader(std::io::Cursor::new(&b)).map_err(|e| es(&e))?, format!("{:?}", b)))
                }
                "cbor-value" => {
                    let v = serde_cbor::value::to_value(g).map_err(|e| es(&e))?;
                    let txt = format!("{:?}", v);
                    Ok((serde_cbor::value::from_value(v).map_err(|e| es(&e))?, txt))
                }
                "json-value" => {
                    let v = serde_json::to_value(g).map_err(|e| es(&e))?;
                    let txt = v.to_string();
                    Ok((serde_json::from_value(v).map_err(|e| es(&e))?, txt))
                }
                "json-pretty-reader" => {
                    let b = serde_json::to_vec_pretty(g).map_err(|e| es(&e))?;
                    Ok((serde_json::from_reader(std::io::Cursor::new(&b)).map_err(|e| es(&e))?, String::from_utf8_lossy(&b).to_string()))
                }
                "json-bytes" => {
                    let b = serde_json::to_vec(g).map_err(|e| es(&e))?;
                    Ok((serde_json::from_slice(&b).map_err(|e| es(&e))?, String::from_utf8_lossy(&b).to_string()))
                }
                "flat" => {
                    let t = crate::flatfmt::to_tokens(g).map_err(|e| es(&e))?;
                    let txt = format!("{:?}", t);
                    Ok((crate::flatfmt::from_tokens(&t).map_err(|e| format!("{} [tokens: {}]", e, txt))?, txt))
                }
                other => Err(format!("harness: unknown format {}", other)),
            }
        }
    };
}

/// gdsl's `Path` type lives in a private module and cannot be named from
/// outside, so a path object is carried inside closures that capture it.
pub struct PathBox<N> {
    pub obs: Box<dyn Fn() -> PathObs>,
    pub nodes: Box<dyn Fn() -> Vec<N>>,
}

macro_rules! make_pathbox {
    ($p:expr) => {{
        let p = std::rc::Rc::new($p);
        let p2 = p.clone();
        PathBox {
            obs: Box::new(move || {
                let a3 = |e: &Self::Edge| (e.0.key().0, e.1.key().0, e.2);
                let nodes: Vec<Self::Node> = p.iter_nodes().collect();
                PathObs {
                    edges: p.edges.iter().map(a3).collect(),
                    len: p.len(),
                    iter_nodes: nodes.iter().map(|n| n.key().0).collect(),
                    to_vec_nodes: p.to_vec_nodes().iter().map(|n| n.key().0).collect(),
                    iter_edges: p.iter_edges().map(|e| a3(&e)).collect(),
                    to_vec_edges: p.to_vec_edges().iter().map(a3).collect(),
                    indexed: (0..p.edges.len()).map(|i| a3(&p[i])).collect(),
                    first_edge: p.first_edge().map(a3),
                    last_edge: p.last_edge().map(a3),
                    first_node: p.first_node().map(|n| n.key().0),
                    last_node: p.last_node().map(|n| n.key().0),
                    node_vals: nodes.iter().map(|n| n.value().p).collect(),
                }
            }),
            nodes: Box::new(move || p2.iter_nodes().collect()),
        }
    }};
}

macro_rules! with_methods {
    // Apply target / transpose / method (in one of two call orders) to a search
    // builder expression, then the trailing selector tokens, and finish with `$fin`.
    ($s:expr, [$($sel:tt)*], $cfg:expr, $t:ident, $fe:ident, $fi:ident, $tr:tt, $tg:tt, |$b:ident| $fin:expr) => {{
        if !$cfg.alt {
            let s = $s $($sel)*;
            let s = with_methods!(@tg $tg, s, $cfg, $t);
            let s = with_methods!(@tr $tr, s, $cfg);
            match $cfg.meth {
                Meth::None => {
                    let mut $b = s;
                    $fin
                }
                Meth::ForEach => {
                    let mut $b = s.for_each(&mut $fe);
                    $fin
                }
                Meth::Filter => {
                    let mut $b = s.filter(&mut $fi);
                    $fin
                }
            }
        } else {
            let s = $s;
            match $cfg.meth {
                Meth::None => {
                    let s = with_methods!(@tr $tr, s, $cfg);
                    let s = with_methods!(@tg $tg, s, $cfg, $t);
                    let mut $b = s $($sel)*;
                    $fin
                }
                Meth::ForEach => {
                    let s = s.for_each(&mut $fe);
                    let s = with_methods!(@tr $tr, s, $cfg);
                    let s = with_methods!(@tg $tg, s, $cfg, $t);
                    let mut $b = s $($sel)*;
                    $fin
                }
                Meth::Filter => {
                    let s = s.filter(&mut $fi);
                    let s = with_methods!(@tr $tr, s, $cfg);
                    let s = with_methods!(@tg $tg, s, $cfg, $t);
                    let mut $b = s $($sel)*;
                    $fin
                }
            }
        }
    }};
    (@tg yes, $s:ident, $cfg:expr, $t:ident) => {
        match $cfg.target {
            Some(_) => $s.target(&$t),
            None => $s,
        }
    };
    (@tg no, $s:ident, $cfg:expr, $t:ident) => {{
        let _ = &$t;
        $s
    }};
    (@tr yes, $s:ident, $cfg:expr) => {
        if $cfg.transpose {
            if $cfg.tt {
                $s.transpose().transpose()
            } else {
                $s.transpose()
            }
        } else {
            $s
        }
    };
    (@tr no, $s:ident, $cfg:expr) => {
        $s
    };
}

macro_rules! search_impl {
    ($m:ident, $tr:tt, [$($pre:tt)*] [$($presel:tt)*], [$($post:tt)*] [$($postsel:tt)*]) => {
        fn search(
            root: &Self::Node,
            cfg: &Cfg,
            cb: &mut dyn FnMut(&Self::Edge) -> bool,
        ) -> (SRes, Vec<Self::Node>) {
            assert!(cfg.valid(Self::DIRECTED), "harness: invalid cfg {:?}", cfg);
            let cbc = RefCell::new(cb);
            let mut fe = |e: &Self::Edge| {
                (cbc.borrow_mut())(e);
            };
            let mut fi = |e: &Self::Edge| (cbc.borrow_mut())(e);
            let t: HK = HK(cfg.target.unwrap_or(0));
            let kv = |n: &Self::Node| (n.key().0, n.value().p);
            let a3 = |e: &Self::Edge| (e.0.key().0, e.1.key().0, e.2);
            macro_rules! finish_search {
                ($builder:expr, $sel:tt) => {
                    with_methods!($builder, $sel, cfg, t, fe, fi, $tr, yes, |b| match cfg.res {
                        ResK::Search => {
                            let r = b.search();
                            (SRes::Node(r.as_ref().map(kv)), r.into_iter().collect())
                        }
                        ResK::Path => {
                            let r = b.search_path().map(|p| make_pathbox!(p));
                            let nodes = r.as_ref().map(Self::path_nodes).unwrap_or_default();
                            (SRes::Path(r.as_ref().map(Self::path_obs)), nodes)
                        }
                        ResK::Cycle => {
                            let r = b.search_cycle().map(|p| make_pathbox!(p));
                            let nodes = r.as_ref().map(Self::path_nodes).unwrap_or_default();
                            (SRes::Path(r.as_ref().map(Self::path_obs)), nodes)
                        }
                        _ => unreachable!(),
                    })
                };
            }
            macro_rules! finish_order {
                ($builder:expr, pre) => {
                    finish_order!(@go $builder, [$($presel)*])
                };
                ($builder:expr, post) => {
                    finish_order!(@go $builder, [$($postsel)*])
                };
                (@go $builder:expr, $selgroup:tt) => {
                    with_methods!($builder, $selgroup, cfg, t, fe, fi, $tr, no, |b| match cfg.res {
                        ResK::Nodes => {
                            let r = b.search_nodes();
                            (SRes::Nodes(r.iter().map(kv).collect()), r)
                        }
                        ResK::Edges => {
                            let r = b.search_edges();
                            let mut nodes = Vec::new();
                            for e in &r {
                                nodes.push(e.0.clone());
                                nodes.push(e.1.clone());
                            }
                            (SRes::Edges(r.iter().map(a3).collect()), nodes)
                        }
                        _ => unreachable!(),
                    })
                };
            }
            match cfg.kind {
                Kind::Bfs => finish_search!(root.bfs(), []),
                Kind::Dfs => finish_search!(root.dfs(), []),
                Kind::PfsMin => finish_search!(root.pfs(), [.min()]),
                Kind::PfsMax => finish_search!(root.pfs(), [.max()]),
                Kind::Pre => finish_order!(root.$($pre)*, pre),
                Kind::Post => finish_order!(root.$($post)*, post),
            }
        }

        fn search_reuse(
            root: &Self::Node,
            cfg: &Cfg,
            second: ResK,
            between: &mut dyn FnMut(),
            cb: &mut dyn FnMut(&Self::Edge) -> bool,
        ) -> (SRes, SRes) {
            assert!(cfg.valid(Self::DIRECTED), "harness: invalid cfg {:?}", cfg);
            let cbc = RefCell::new(cb);
            let mut fe = |e: &Self::Edge| {
                (cbc.borrow_mut())(e);
            };
            let mut fi = |e: &Self::Edge| (cbc.borrow_mut())(e);
            let t: HK = HK(cfg.target.unwrap_or(0));
            let kv = |n: &Self::Node| (n.key().0, n.value().p);
            let a3 = |e: &Self::Edge| (e.0.key().0, e.1.key().0, e.2);
            macro_rules! twice_search {
                ($builder:expr, $sel:tt) => {
                    with_methods!($builder, $sel, cfg, t, fe, fi, $tr, yes, |b| {
                        assert!(cfg.res == ResK::Path, "harness: only search_path leaves a search object usable");
                        let r1 = b.search_path().map(|p| make_pathbox!(p));
                        between();
                        let r2 = match second {
                            ResK::Path => SRes::Path(b.search_path().map(|p| make_pathbox!(p)).as_ref().map(Self::path_obs)),
                            ResK::Cycle => SRes::Path(b.search_cycle().map(|p| make_pathbox!(p)).as_ref().map(Self::path_obs)),
                            ResK::Search => SRes::Node(b.search().as_ref().map(kv)),
                            _ => panic!("harness: searches offer search / search_path / search_cycle"),
                        };
                        (SRes::Path(r1.as_ref().map(Self::path_obs)), r2)
                    })
                };
            }
            macro_rules! twice_order {
                ($builder:expr, pre) => {
                    twice_order!(@go $builder, [$($presel)*])
                };
                ($builder:expr, post) => {
                    twice_order!(@go $builder, [$($postsel)*])
                };
                (@go $builder:expr, $selgroup:tt) => {
                    with_methods!($builder, $selgroup, cfg, t, fe, fi, $tr, no, |b| {
                        let mut one = |res: ResK| match res {
                            ResK::Nodes => SRes::Nodes(b.search_nodes().iter().map(kv).collect()),
                            ResK::Edges => SRes::Edges(b.search_edges().iter().map(a3).collect()),
                            _ => panic!("harness: orderings offer search_nodes / search_edges"),
                        };
                        let r1 = one(cfg.res);
                        between();
                        let r2 = one(second);
                        (r1, r2)
                    })
                };
            }
            match cfg.kind {
                Kind::Bfs => twice_search!(root.bfs(), []),
                Kind::Dfs => twice_search!(root.dfs(), []),
                Kind::PfsMin => twice_search!(root.pfs(), [.min()]),
                Kind::PfsMax => twice_search!(root.pfs(), [.max()]),
                Kind::Pre => twice_order!(root.$($pre)*, pre),
                Kind::Post => twice_order!(root.$($post)*, post),
            }
        }

        fn search_path_obj(
            root: &Self::Node,
            cfg: &Cfg,
            cb: &mut dyn FnMut(&Self::Edge) -> bool,
        ) -> Option<Self::Path> {
            assert!(cfg.valid(Self::DIRECTED) && !cfg.kind.is_order());
            let cbc = RefCell::new(cb);
            let mut fe = |e: &Self::Edge| {
                (cbc.borrow_mut())(e);
            };
            let mut fi = |e: &Self::Edge| (cbc.borrow_mut())(e);
            let t: HK = HK(cfg.target.unwrap_or(0));
            macro_rules! finish_path {
                ($builder:expr, $sel:tt) => {
                    with_methods!($builder, $sel, cfg, t, fe, fi, $tr, yes, |b| match cfg.res {
                        ResK::Path => b.search_path().map(|p| make_pathbox!(p)),
                        ResK::Cycle => b.search_cycle().map(|p| make_pathbox!(p)),
                        _ => panic!("harness: search_path_obj needs Path or Cycle"),
                    })
                };
            }
            match cfg.kind {
                Kind::Bfs => finish_path!(root.bfs(), []),
                Kind::Dfs => finish_path!(root.dfs(), []),
                Kind::PfsMin => finish_path!(root.pfs(), [.min()]),
                Kind::PfsMax => finish_path!(root.pfs(), [.max()]),
                _ => unreachable!(),
            }
        }
    };
}

macro_rules! edge_loop_impl {
    ($out:ident, $in_:tt) => {
        fn edge_loop(
            n: &Self::Node,
            which: u8,
            budget: usize,
            body: &mut dyn FnMut(&Self::Edge),
        ) -> bool {
            let mut steps = 0usize;
            match which {
                3 => {
                    // the iterator driven by hand; size_hint() is asked before
                    // and after every step, as adaptors like collect() do
                    let mut it = n.$out();
                    loop {
                        let _ = it.size_hint();
                        match it.next() {
                            Some(e) => {
                                if steps >= budget {
                                    return false;
                                }
                                steps += 1;
                                body(&e);
                            }
                            None => break,
                        }
                    }
                    let _ = it.size_hint();
                }
                4 => {
                    edge_loop_impl!(@manual_in $in_, n, steps, budget, body);
                }
                0 => {
                    for e in n.$out() {
                        if steps >= budget {
                            return false;
                        }
                        steps += 1;
                        body(&e);
                    }
                }
                1 => {
                    edge_loop_impl!(@in $in_, n, steps, budget, body);
                }
                // internal iteration: the adaptor methods an iterator may override
                // (fold / try_fold / count / last / nth / collect); the body bounds
                // the number of calls itself
                10..=19 => {
                    edge_loop_impl!(@adapt n.$out(), which - 10, body);
                }
                20..=29 => {
                    edge_loop_impl!(@adapt_in $in_, n, which - 20, body);
                }
                30..=39 => {
                    edge_loop_impl!(@adapt n.into_iter(), which - 30, body);
                }
                _ => {
                    for e in n {
                        if steps >= budget {
                            return false;
                        }
                        steps += 1;
                        body(&e);
                    }
                }
            }
            true
        }
    };
    (@adapt_in none, $n:ident, $w:expr, $body:ident) => {
        let _ = (&$n, $w);
    };
    (@adapt_in $it:ident, $n:ident, $w:expr, $body:ident) => {
        edge_loop_impl!(@adapt $n.$it(), $w, $body);
    };
    (@adapt $iter:expr, $w:expr, $body:ident) => {
        match $w {
            0 => $iter.for_each(|e| $body(&e)),
            1 => $iter.fold((), |_, e| $body(&e)),
            2 => {
                let _ = $iter.map(|e| {
                    $body(&e);
                    1usize
                })
                .sum::<usize>();
            }
            3 => {
                let _ = $iter.inspect(|e| $body(e)).count();
            }
            4 => {
                let _ = $iter.inspect(|e| $body(e)).last();
            }
            5 => {
                let _ = $iter.all(|e| {
                    $body(&e);
                    true
                });
            }
            6 => {
                let _ = $iter.inspect(|e| $body(e)).collect::<Vec<_>>();
            }
            7 => {
                let mut it = $iter;
                while let Some(e) = it.nth(0) {
                    $body(&e);
                }
            }
            8 => {
                for (e, _) in $iter.zip(0u32..) {
                    $body(&e);
                }
            }
            _ => {
                let _ = $iter.inspect(|e| $body(e)).max_by_key(|_| 0u8);
            }
        }
    };
    (@manual_in none, $n:ident, $steps:ident, $budget:ident, $body:ident) => {
        let _ = (&$n, &$steps);
    };
    (@manual_in $it:ident, $n:ident, $steps:ident, $budget:ident, $body:ident) => {
        let mut it = $n.$it();
        loop {
            let _ = it.size_hint();
            match it.next() {
                Some(e) => {
                    if $steps >= $budget {
                        return false;
                    }
                    $steps += 1;
                    $body(&e);
                }
                None => break,
            }
        }
        let _ = it.size_hint();
    };
    (@in none, $n:ident, $steps:ident, $budget:ident, $body:ident) => {
        let _ = (&$n, &$steps);
    };
    (@in $it:ident, $n:ident, $steps:ident, $budget:ident, $body:ident) => {
        for e in $n.$it() {
            if $steps >= $budget {
                return false;
            }
            $steps += 1;
            $body(&e);
        }
    };
}

macro_rules! drop_elsewhere {
    (true) => {
        fn g_drop_elsewhere(g: Self::Graph) {
            std::thread::spawn(move || drop(g)).join().expect("drop thread");
        }
    };
    (false) => {
        fn g_drop_elsewhere(g: Self::Graph) {
            drop(g)
        }
    };
}

macro_rules! directed_flavor {
    ($name:ident, $m:ident, $sync:tt, $with_cap:expr) => {
        pub struct $name;
        impl Fl for $name {
            const NAME: &'static str = stringify!($m);
            const DIRECTED: bool = true;
            const SYNC: bool = $sync;
            common_items!($m);
            search_impl!(
                $m,
                yes,
                [preorder()] [],
                [postorder()] []
            );
            edge_loop_impl!(iter_out, iter_in);

            fn edges_out(n: &Self::Node) -> Vec<Self::Edge> {
                n.iter_out().collect()
            }
            fn edges_in(n: &Self::Node) -> Vec<Self::Edge> {
                n.iter_in().collect()
            }
            fn deg_out(n: &Self::Node) -> usize {
                n.out_degree()
            }
            fn deg_in(n: &Self::Node) -> Option<usize> {
                Some(n.in_degree())
            }
            fn is_root(n: &Self::Node) -> Option<bool> {
                Some(n.is_root())
            }
            fn is_leaf(n: &Self::Node) -> Option<bool> {
                Some(n.is_leaf())
            }
            fn find_out(n: &Self::Node, k: K) -> Option<Self::Node> {
                n.find_outbound(&HK(k))
            }
            fn find_in(n: &Self::Node, k: K) -> Option<Option<Self::Node>> {
                Some(n.find_inbound(&HK(k)))
            }
            fn g_with_capacity(c: usize) -> Option<Self::Graph> {
                let f: &dyn Fn(usize) -> Option<Self::Graph> = &$with_cap;
                f(c)
            }
            fn g_index_ref(g: &Self::Graph, k: K) -> Option<Self::Node> {
                Some(g[&HK(k)].clone())
            }
            fn g_roots(g: &Self::Graph) -> Option<Vec<Self::Node>> {
                Some(g.roots())
            }
            fn g_leaves(g: &Self::Graph) -> Option<Vec<Self::Node>> {
                Some(g.leaves())
            }
            fn g_scc(g: &Self::Graph) -> Option<Vec<Vec<Self::Node>>> {
                Some(g.scc())
            }
            fn g_to_dot_attr(
                g: &Self::Graph,
                gattr: &dyn Fn() -> Attrs,
                nattr: &dyn Fn(K) -> Attrs,
                eattr: &dyn Fn(K, K, E) -> Attrs,
            ) -> Option<String> {
                Some(g.to_dot_with_attr(
                    &|_g| gattr(),
                    &|n| nattr(n.key().0),
                    &|u, v, e| eattr(u.key().0, v.key().0, *e),
                ))
            }
            fn g_sizeof(g: &Self::Graph) -> Option<usize> {
                Some(g.sizeof())
            }
            drop_elsewhere!($sync);
        }
    };
}

macro_rules! undirected_flavor {
    ($name:ident, $m:ident, $sync:tt, $dot_attr:expr, $gsizeof:expr) => {
        pub struct $name;
        impl Fl for $name {
            const NAME: &'static str = stringify!($m);
            const DIRECTED: bool = false;
            const SYNC: bool = $sync;
            common_items!($m);
            search_impl!(
                $m,
                no,
                [order()] [.pre()],
                [order()] [.post()]
            );
            edge_loop_impl!(iter, none);

            fn edges_out(n: &Self::Node) -> Vec<Self::Edge> {
                n.iter().collect()
            }
            fn edges_in(_n: &Self::Node) -> Vec<Self::Edge> {
                Vec::new()
            }
            fn deg_out(n: &Self::Node) -> usize {
                n.degree()
            }
            fn deg_in(_n: &Self::Node) -> Option<usize> {
                None
            }
            fn is_root(_n: &Self::Node) -> Option<bool> {
                None
            }
            fn is_leaf(_n: &Self::Node) -> Option<bool> {
                None
            }
            fn find_out(n: &Self::Node, k: K) -> Option<Self::Node> {
                n.find_adjacent(&HK(k))
            }
            fn find_in(_n: &Self::Node, _k: K) -> Option<Option<Self::Node>> {
                None
            }
            fn g_with_capacity(_c: usize) -> Option<Self::Graph> {
                None
            }
            fn g_index_ref(_g: &Self::Graph, _k: K) -> Option<Self::Node> {
                None
            }
            fn g_roots(_g: &Self::Graph) -> Option<Vec<Self::Node>> {
                None
            }
            fn g_leaves(_g: &Self::Graph) -> Option<Vec<Self::Node>> {
                None
            }
            fn g_scc(_g: &Self::Graph) -> Option<Vec<Vec<Self::Node>>> {
                None
            }
            fn g_to_dot_attr(
                g: &Self::Graph,
                gattr: &dyn Fn() -> Attrs,
                nattr: &dyn Fn(K) -> Attrs,
                eattr: &dyn Fn(K, K, E) -> Attrs,
            ) -> Option<String> {
                let f: &dyn Fn(
                    &Self::Graph,
                    &dyn Fn() -> Attrs,
                    &dyn Fn(K) -> Attrs,
                    &dyn Fn(K, K, E) -> Attrs,
                ) -> Option<String> = &$dot_attr;
                f(g, gattr, nattr, eattr)
            }
            fn g_sizeof(g: &Self::Graph) -> Option<usize> {
                let f: &dyn Fn(&Self::Graph) -> Option<usize> = &$gsizeof;
                f(g)
            }
            drop_elsewhere!($sync);
        }
    };
}


directed_flavor!(Di, digraph, false, |c| Some(gdsl::digraph::Graph::with_capacity(c)));
directed_flavor!(SDi, sync_digraph, true, |_c| None);
undirected_flavor!(
    Un,
    ungraph,
    false,
    |g, gattr, nattr, eattr| Some(g.to_dot_with_attr(
        &|_g| gattr(),
        &|n| nattr(n.key().0),
        &|u, v, e| eattr(u.key().0, v.key().0, *e),
    )),
    |g| Some(g.sizeof())
);
undirected_flavor!(SUn, sync_ungraph, true, |_g, _a, _b, _c| None, |_g| None);
