//! Shared machinery: guarded calls (panic capture + sequential lock monitor),
//! worlds of nodes, operations, observations.

use crate::flavor::*;
use serde::{Deserialize, Serialize};
use std::cell::RefCell;
use std::panic::{catch_unwind, AssertUnwindSafe};
use std::rc::Rc;

pub const HARNESS_MARK: &str = "GDSL_MC_HARNESS";
pub const DEADLOCK_MARK: &str = "GDSL_MC_SELF_DEADLOCK";
pub const ABORT_MARK: &str = "GDSL_MC_SCHED_ABORT";

/// Assertion of the harness about itself. A failure is a machinery error
/// (exit 2), never a verdict.
#[macro_export]
macro_rules! hassert {
    ($c:expr, $($arg:tt)*) => {
        if !$c {
            panic!("{}: {}", $crate::core::HARNESS_MARK, format!($($arg)*));
        }
    };
}

#[derive(Clone, Debug, PartialEq, Eq, Hash, Serialize, Deserialize, PartialOrd, Ord)]
pub enum Fail {
    /// the library panicked (message, location)
    Panic(String),
    /// a sync flavour requested a lock the same thread already holds in a
    /// conflicting mode: with the real lock this call never returns
    SelfDeadlock(String),
}

impl Fail {
    pub fn kind(&self) -> &'static str {
        match self {
            Fail::Panic(_) => "panic",
            Fail::SelfDeadlock(_) => "self-deadlock",
        }
    }
    pub fn msg(&self) -> &str {
        match self {
            Fail::Panic(m) | Fail::SelfDeadlock(m) => m,
        }
    }
}

thread_local! {
    static LAST_PANIC: RefCell<Option<String>> = const { RefCell::new(None) };
    static MONITOR: RefCell<Option<Rc<SeqMonitor>>> = const { RefCell::new(None) };
}

/// Install the process-wide quiet panic hook (records message + location in a
/// thread-local instead of printing).
pub fn install_panic_hook() {
    std::panic::set_hook(Box::new(|info| {
        let msg = if let Some(s) = info.payload().downcast_ref::<&str>() {
            s.to_string()
        } else if let Some(s) = info.payload().downcast_ref::<String>() {
            s.clone()
        } else {
            "<non-string panic payload>".to_string()
        };
        let loc = info
            .location()
            .map(|l| format!("{}:{}", l.file(), l.line()))
            .unwrap_or_default();
        let full = format!("{} @ {}", msg, loc);
        if msg.contains(HARNESS_MARK) {
            eprintln!("harness assertion failed: {}", full);
        }
        let _ = LAST_PANIC.try_with(|p| *p.borrow_mut() = Some(full));
    }));
}

pub fn take_last_panic() -> Option<String> {
    LAST_PANIC.with(|p| p.borrow_mut().take())
}

/// Sequential lock monitor: reports a conflicting re-acquisition by the same
/// thread (write while anything held, read while write held) — exactly the
/// cases where `std::sync::RwLock` blocks forever — as a panic with a
/// recognisable payload. Recursive reads are legal single-threaded and ignored.
pub struct SeqMonitor {
    held: RefCell<Vec<(usize, gdsl::verif::Mode)>>,
    pub acquisitions: std::cell::Cell<u64>,
    /// identity (address) of the lock acquired last
    pub last_lock: std::cell::Cell<usize>,
}

impl gdsl::verif::LockHook for SeqMonitor {
    fn before_acquire(&self, lock: usize, mode: gdsl::verif::Mode) {
        use gdsl::verif::Mode::*;
        let conflict = {
            let held = self.held.borrow();
            held.iter().any(|(l, m)| {
                *l == lock && (mode == Write || *m == Write)
            })
        };
        if conflict && !std::thread::panicking() {
            panic!(
                "{}: {:?} requested on a lock this thread already holds",
                DEADLOCK_MARK, mode
            );
        }
    }
    fn acquired(&self, lock: usize, mode: gdsl::verif::Mode) {
        self.acquisitions.set(self.acquisitions.get() + 1);
        self.last_lock.set(lock);
        self.held.borrow_mut().push((lock, mode));
    }
    fn released(&self, lock: usize, mode: gdsl::verif::Mode) {
        let mut held = self.held.borrow_mut();
        if let Some(i) = held.iter().rposition(|(l, m)| *l == lock && *m == mode) {
            held.remove(i);
        }
    }
}

/// Make sure the calling thread has the sequential monitor installed.
pub fn ensure_monitor() -> Rc<SeqMonitor> {
    MONITOR.with(|m| {
        let mut m = m.borrow_mut();
        if m.is_none() {
            let mon = Rc::new(SeqMonitor {
                held: RefCell::new(Vec::new()),
                acquisitions: std::cell::Cell::new(0),
                last_lock: std::cell::Cell::new(0),
            });
            gdsl::verif::set_lock_hook(Some(mon.clone()));
            *m = Some(mon);
        }
        m.as_ref().unwrap().clone()
    })
}

pub fn remove_monitor() {
    MONITOR.with(|m| *m.borrow_mut() = None);
    gdsl::verif::set_lock_hook(None);
}

/// Run a call into the library; a panic or a self-deadlock is an observed
/// outcome. A harness assertion inside is re-raised.
pub fn guarded<T>(f: impl FnOnce() -> T) -> Result<T, Fail> {
    let _ = take_last_panic();
    match catch_unwind(AssertUnwindSafe(f)) {
        Ok(v) => Ok(v),
        Err(payload) => {
            let msg = take_last_panic().unwrap_or_else(|| "<panic>".to_string());
            if msg.contains(HARNESS_MARK) || msg.contains(ABORT_MARK) {
                std::panic::resume_unwind(payload);
            }
            // after a failure the monitor may still list guards whose drop ran
            // during unwinding; they were removed by `released`. Anything left
            // belongs to leaked guards; clear it so later cases start clean.
            MONITOR.with(|m| {
                if let Some(m) = m.borrow().as_ref() {
                    m.held.borrow_mut().clear();
                }
            });
            if msg.contains(DEADLOCK_MARK) {
                Err(Fail::SelfDeadlock(strip_loc(&msg)))
            } else {
                Err(Fail::Panic(msg))
            }
        }
    }
}

fn strip_loc(m: &str) -> String {
    match m.find(" @ ") {
        Some(i) => m[..i].to_string(),
        None => m.to_string(),
    }
}

/// Panic message without the line number (stable under unrelated edits).
pub fn stable_msg(m: &str) -> String {
    let (msg, loc) = match m.rfind(" @ ") {
        Some(i) => (&m[..i], &m[i + 3..]),
        None => (m, ""),
    };
    let file = loc.rsplit_once(':').map(|x| x.0).unwrap_or(loc);
    let file = file.trim_start_matches("/repo/");
    let mut msg = msg.to_string();
    if msg.len() > 90 {
        msg.truncate(90);
    }
    format!("{} @ {}", msg, file)
}

// ---------------------------------------------------------------------------
// Operations
// ---------------------------------------------------------------------------

#[derive(Clone, Copy, Debug, PartialEq, Eq, Hash, Serialize, Deserialize, PartialOrd, Ord)]
pub enum Op {
    Connect(K, K, E),
    TryConnect(K, K, E),
    Disconnect(K, K),
    Isolate(K),
}

impl Op {
    pub fn name(&self) -> &'static str {
        match self {
            Op::Connect(..) => "connect",
            Op::TryConnect(..) => "try_connect",
            Op::Disconnect(..) => "disconnect",
            Op::Isolate(..) => "isolate",
        }
    }
    pub fn is_self(&self) -> bool {
        match self {
            Op::Connect(u, v, _) | Op::TryConnect(u, v, _) | Op::Disconnect(u, v) => u == v,
            Op::Isolate(_) => false,
        }
    }
    pub fn show(&self) -> String {
        match self {
            Op::Connect(u, v, e) => format!("n{}.connect(&n{}, {})", u, v, e),
            Op::TryConnect(u, v, e) => format!("n{}.try_connect(&n{}, {})", u, v, e),
            Op::Disconnect(u, v) => format!("n{}.disconnect(&{})", u, v),
            Op::Isolate(u) => format!("n{}.isolate()", u),
        }
    }
}

#[derive(Clone, Debug, PartialEq, Eq, Hash, Serialize, Deserialize, PartialOrd, Ord)]
pub enum Ret {
    Unit,
    Res(Result<(), ErrK>),
    Val(Result<E, ErrK>),
    Fail(Fail),
}

impl Ret {
    pub fn is_fail(&self) -> bool {
        matches!(self, Ret::Fail(_))
    }
}

pub fn show_history(h: &[Op]) -> String {
    h.iter().map(|o| o.show()).collect::<Vec<_>>().join("; ")
}

// ---------------------------------------------------------------------------
// Worlds and observations
// ---------------------------------------------------------------------------

#[derive(Clone, Debug, PartialEq, Eq, Hash, Serialize, Deserialize, PartialOrd, Ord, Default)]
pub struct NodeObs {
    /// directed: iter_out(); undirected: iter()  — as reported (src, tgt, val)
    pub out: Vec<Arc3>,
    /// directed: iter_in(); undirected: empty
    pub inn: Vec<Arc3>,
    /// opaque discriminator (hidden out/in split of the undirected flavours)
    pub sizeof: usize,
}

pub type WorldObs = Vec<NodeObs>;

pub struct World<F: Fl> {
    pub nodes: Vec<F::Node>,
}

/// Default node value (priority) of node k when nothing else is specified.
pub fn default_val(k: K) -> i8 {
    // distinct for the first 12 nodes; larger graphs reuse the values
    ((k % 12) as i8) * 10
}

impl<F: Fl> World<F> {
    pub fn new(n: usize) -> Self {
        Self::with_vals(&(0..n).map(|k| default_val(k as K)).collect::<Vec<_>>())
    }
    pub fn with_vals(vals: &[i8]) -> Self {
        if F::SYNC {
            ensure_monitor();
        }
        World {
            nodes: vals
                .iter()
                .enumerate()
                .map(|(k, v)| F::node(k as K, Val::new(*v)))
                .collect(),
        }
    }
    pub fn n(&self) -> usize {
        self.nodes.len()
    }

    /// Apply without guarding (harness-internal building of known-good prefixes
    /// is still guarded by callers where it matters).
    pub fn apply_raw(&self, op: &Op) -> Ret {
        match *op {
            Op::Connect(u, v, e) => {
                F::connect(&self.nodes[u as usize], &self.nodes[v as usize], e);
                Ret::Unit
            }
            Op::TryConnect(u, v, e) => {
                Ret::Res(F::try_connect(&self.nodes[u as usize], &self.nodes[v as usize], e))
            }
            Op::Disconnect(u, v) => Ret::Val(F::disconnect(&self.nodes[u as usize], v)),
            Op::Isolate(u) => {
                F::isolate(&self.nodes[u as usize]);
                Ret::Unit
            }
        }
    }

    pub fn apply(&self, op: &Op) -> Ret {
        match guarded(|| self.apply_raw(op)) {
            Ok(r) => r,
            Err(f) => Ret::Fail(f),
        }
    }

    /// Rebuild a world by replaying a history. Err if the history itself fails.
    pub fn build(n: usize, history: &[Op]) -> Result<Self, (usize, Fail)> {
        let w = Self::new(n);
        for (i, op) in history.iter().enumerate() {
            if let Ret::Fail(f) = w.apply(op) {
                return Err((i, f));
            }
        }
        Ok(w)
    }

    pub fn observe_raw(&self) -> WorldObs {
        let a3 = |e: &F::Edge| {
            let (u, v, x) = F::edge_parts(e);
            (F::key(&u), F::key(&v), x)
        };
        self.nodes
            .iter()
            .map(|n| NodeObs {
                out: F::edges_out(n).iter().map(a3).collect(),
                inn: F::edges_in(n).iter().map(a3).collect(),
                sizeof: if F::DIRECTED { 0 } else { F::sizeof(n) },
            })
            .collect()
    }

    pub fn observe(&self) -> Result<WorldObs, Fail> {
        guarded(|| self.observe_raw())
    }
}

/// Number of live edges in an observation.
pub fn live_edges(directed: bool, obs: &WorldObs) -> usize {
    let s: usize = obs.iter().map(|n| n.out.len()).sum();
    if directed {
        s
    } else {
        s / 2
    }
}

/// Observation with edge values erased (the unlabelled shape).
pub fn erase_values(obs: &WorldObs) -> WorldObs {
    obs.iter()
        .map(|n| NodeObs {
            out: n.out.iter().map(|a| (a.0, a.1, 0)).collect(),
            inn: n.inn.iter().map(|a| (a.0, a.1, 0)).collect(),
            sizeof: n.sizeof,
        })
        .collect()
}
