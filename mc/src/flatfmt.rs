//! A minimal serde data format that is NOT self-describing, in the manner of
//! bincode / postcard: a sequence carries its length, a tuple or struct
//! carries nothing (its arity is known to both sides), `deserialize_any` is
//! refused. serde_json and serde_cbor are both self-describing, so a
//! `Serialize` / `Deserialize` pair that disagrees about *which* serde data
//! model type it writes and reads (tuple vs sequence, struct vs map) still
//! round-trips through them; through this format it does not. C12 quantifies
//! over every wire format with a serde implementation; none of the compact
//! binary formats is available offline, this one stands for them.
//!
//! The stream is a vector of typed tokens (so a disagreement is a clean error,
//! not garbage).

use serde::de::{self, DeserializeSeed, EnumAccess, MapAccess, SeqAccess, VariantAccess, Visitor};
use serde::ser::{self, Serialize};
use std::fmt;

#[derive(Clone, Debug, PartialEq)]
pub enum Tok {
    Bool(bool),
    I(i64),
    U(u64),
    F(f64),
    Char(char),
    Str(String),
    Bytes(Vec<u8>),
    Unit,
    None,
    Some,
    SeqLen(usize),
    MapLen(usize),
    Variant(u32),
}

#[derive(Debug)]
pub struct Error(pub String);
impl fmt::Display for Error {
    fn fmt(&self, f: &mut fmt::Formatter<'_>) -> fmt::Result {
        write!(f, "{}", self.0)
    }
}
impl std::error::Error for Error {}
impl ser::Error for Error {
    fn custom<T: fmt::Display>(m: T) -> Self {
        Error(m.to_string())
    }
}
impl de::Error for Error {
    fn custom<T: fmt::Display>(m: T) -> Self {
        Error(m.to_string())
    }
}

pub fn to_tokens<T: Serialize>(v: &T) -> Result<Vec<Tok>, Error> {
    let mut s = Ser { out: Vec::new() };
    v.serialize(&mut s)?;
    Ok(s.out)
}

pub fn from_tokens<'de, T: de::Deserialize<'de>>(toks: &[Tok]) -> Result<T, Error> {
    let mut d = De { toks, pos: 0 };
    let v = T::deserialize(&mut d)?;
    if d.pos != toks.len() {
        return Err(Error(format!("{} trailing token(s) after the value", toks.len() - d.pos)));
    }
    Ok(v)
}

pub struct Ser {
    out: Vec<Tok>,
}

impl<'a> ser::Serializer for &'a mut Ser {
    type Ok = ();
    type Error = Error;
    type SerializeSeq = Self;
    type SerializeTuple = Self;
    type SerializeTupleStruct = Self;
    type SerializeTupleVariant = Self;
    type SerializeMap = Self;
    type SerializeStruct = Self;
    type SerializeStructVariant = Self;

    fn serialize_bool(self, v: bool) -> Result<(), Error> {
        self.out.push(Tok::Bool(v));
        Ok(())
    }
    fn serialize_i8(self, v: i8) -> Result<(), Error> {
        self.serialize_i64(v as i64)
    }
    fn serialize_i16(self, v: i16) -> Result<(), Error> {
        self.serialize_i64(v as i64)
    }
    fn serialize_i32(self, v: i32) -> Result<(), Error> {
        self.serialize_i64(v as i64)
    }
    fn serialize_i64(self, v: i64) -> Result<(), Error> {
        self.out.push(Tok::I(v));
        Ok(())
    }
    fn serialize_u8(self, v: u8) -> Result<(), Error> {
        self.serialize_u64(v as u64)
    }
    fn serialize_u16(self, v: u16) -> Result<(), Error> {
        self.serialize_u64(v as u64)
    }
    fn serialize_u32(self, v: u32) -> Result<(), Error> {
        self.serialize_u64(v as u64)
    }
    fn serialize_u64(self, v: u64) -> Result<(), Error> {
        self.out.push(Tok::U(v));
        Ok(())
    }
    fn serialize_f32(self, v: f32) -> Result<(), Error> {
        self.serialize_f64(v as f64)
    }
    fn serialize_f64(self, v: f64) -> Result<(), Error> {
        self.out.push(Tok::F(v));
        Ok(())
    }
    fn serialize_char(self, v: char) -> Result<(), Error> {
        self.out.push(Tok::Char(v));
        Ok(())
    }
    fn serialize_str(self, v: &str) -> Result<(), Error> {
        self.out.push(Tok::Str(v.to_string()));
        Ok(())
    }
    fn serialize_bytes(self, v: &[u8]) -> Result<(), Error> {
        self.out.push(Tok::Bytes(v.to_vec()));
        Ok(())
    }
    fn serialize_none(self) -> Result<(), Error> {
        self.out.push(Tok::None);
        Ok(())
    }
    fn serialize_some<T: ?Sized + Serialize>(self, v: &T) -> Result<(), Error> {
        self.out.push(Tok::Some);
        v.serialize(self)
    }
    fn serialize_unit(self) -> Result<(), Error> {
        self.out.push(Tok::Unit);
        Ok(())
    }
    fn serialize_unit_struct(self, _n: &'static str) -> Result<(), Error> {
        Ok(())
    }
    fn serialize_unit_variant(self, _n: &'static str, i: u32, _v: &'static str) -> Result<(), Error> {
        self.out.push(Tok::Variant(i));
        Ok(())
    }
    fn serialize_newtype_struct<T: ?Sized + Serialize>(self, _n: &'static str, v: &T) -> Result<(), Error> {
        v.serialize(self)
    }
    fn serialize_newtype_variant<T: ?Sized + Serialize>(self, _n: &'static str, i: u32, _v: &'static str, v: &T) -> Result<(), Error> {
        self.out.push(Tok::Variant(i));
        v.serialize(self)
    }
    fn serialize_seq(self, len: Option<usize>) -> Result<Self, Error> {
        match len {
            Some(n) => {
                self.out.push(Tok::SeqLen(n));
                Ok(self)
            }
            None => Err(Error("sequences must know their length in this format".into())),
        }
    }
    fn serialize_tuple(self, _len: usize) -> Result<Self, Error> {
        Ok(self)
    }
    fn serialize_tuple_struct(self, _n: &'static str, _len: usize) -> Result<Self, Error> {
        Ok(self)
    }
    fn serialize_tuple_variant(self, _n: &'static str, i: u32, _v: &'static str, _len: usize) -> Result<Self, Error> {
        self.out.push(Tok::Variant(i));
        Ok(self)
    }
    fn serialize_map(self, len: Option<usize>) -> Result<Self, Error> {
        match len {
            Some(n) => {
                self.out.push(Tok::MapLen(n));
                Ok(self)
            }
            None => Err(Error("maps must know their length in this format".into())),
        }
    }
    fn serialize_struct(self, _n: &'static str, _len: usize) -> Result<Self, Error> {
        Ok(self)
    }
    fn serialize_struct_variant(self, _n: &'static str, i: u32, _v: &'static str, _len: usize) -> Result<Self, Error> {
        self.out.push(Tok::Variant(i));
        Ok(self)
    }
    fn is_human_readable(&self) -> bool {
        false
    }
}

macro_rules! compound {
    ($tr:ident, $method:ident) => {
        impl<'a> ser::$tr for &'a mut Ser {
            type Ok = ();
            type Error = Error;
            fn $method<T: ?Sized + Serialize>(&mut self, v: &T) -> Result<(), Error> {
                v.serialize(&mut **self)
            }
            fn end(self) -> Result<(), Error> {
                Ok(())
            }
        }
    };
}
compound!(SerializeSeq, serialize_element);
compound!(SerializeTuple, serialize_element);
compound!(SerializeTupleStruct, serialize_field);
compound!(SerializeTupleVariant, serialize_field);

impl<'a> ser::SerializeMap for &'a mut Ser {
    type Ok = ();
    type Error = Error;
    fn serialize_key<T: ?Sized + Serialize>(&mut self, k: &T) -> Result<(), Error> {
        k.serialize(&mut **self)
    }
    fn serialize_value<T: ?Sized + Serialize>(&mut self, v: &T) -> Result<(), Error> {
        v.serialize(&mut **self)
    }
    fn end(self) -> Result<(), Error> {
        Ok(())
    }
}
impl<'a> ser::SerializeStruct for &'a mut Ser {
    type Ok = ();
    type Error = Error;
    fn serialize_field<T: ?Sized + Serialize>(&mut self, _k: &'static str, v: &T) -> Result<(), Error> {
        v.serialize(&mut **self)
    }
    fn end(self) -> Result<(), Error> {
        Ok(())
    }
}
impl<'a> ser::SerializeStructVariant for &'a mut Ser {
    type Ok = ();
    type Error = Error;
    fn serialize_field<T: ?Sized + Serialize>(&mut self, _k: &'static str, v: &T) -> Result<(), Error> {
        v.serialize(&mut **self)
    }
    fn end(self) -> Result<(), Error> {
        Ok(())
    }
}

pub struct De<'t> {
    toks: &'t [Tok],
    pos: usize,
}

impl<'t> De<'t> {
    fn next(&mut self, want: &str) -> Result<&'t Tok, Error> {
        match self.toks.get(self.pos) {
            Some(t) => {
                self.pos += 1;
                Ok(t)
            }
            None => Err(Error(format!("end of input, expected {}", want))),
        }
    }
    fn int(&mut self, want: &str) -> Result<i128, Error> {
        match self.next(want)? {
            Tok::I(v) => Ok(*v as i128),
            Tok::U(v) => Ok(*v as i128),
            other => Err(Error(format!("expected {}, found {:?}", want, other))),
        }
    }
}

macro_rules! de_int {
    ($method:ident, $visit:ident, $ty:ty) => {
        fn $method<V: Visitor<'de>>(self, v: V) -> Result<V::Value, Error> {
            let x = self.int(stringify!($ty))?;
            match <$ty>::try_from(x) {
                Ok(y) => v.$visit(y),
                Err(_) => Err(Error(format!("{} does not fit {}", x, stringify!($ty)))),
            }
        }
    };
}

struct Counted<'a, 't> {
    de: &'a mut De<'t>,
    left: usize,
}

impl<'de, 'a, 't> SeqAccess<'de> for Counted<'a, 't> {
    type Error = Error;
    fn next_element_seed<T: DeserializeSeed<'de>>(&mut self, seed: T) -> Result<Option<T::Value>, Error> {
        if self.left == 0 {
            return Ok(None);
        }
        self.left -= 1;
        seed.deserialize(&mut *self.de).map(Some)
    }
    fn size_hint(&self) -> Option<usize> {
        Some(self.left)
    }
}

impl<'de, 'a, 't> MapAccess<'de> for Counted<'a, 't> {
    type Error = Error;
    fn next_key_seed<T: DeserializeSeed<'de>>(&mut self, seed: T) -> Result<Option<T::Value>, Error> {
        if self.left == 0 {
            return Ok(None);
        }
        self.left -= 1;
        seed.deserialize(&mut *self.de).map(Some)
    }
    fn next_value_seed<T: DeserializeSeed<'de>>(&mut self, seed: T) -> Result<T::Value, Error> {
        seed.deserialize(&mut *self.de)
    }
    fn size_hint(&self) -> Option<usize> {
        Some(self.left)
    }
}

impl<'de, 'a, 't> EnumAccess<'de> for &'a mut De<'t> {
    type Error = Error;
    type Variant = Self;
    fn variant_seed<T: DeserializeSeed<'de>>(self, seed: T) -> Result<(T::Value, Self), Error> {
        let idx = match self.next("a variant index")? {
            Tok::Variant(i) => *i,
            other => return Err(Error(format!("expected a variant index, found {:?}", other))),
        };
        let v = seed.deserialize(de::value::U32Deserializer::<Error>::new(idx))?;
        Ok((v, self))
    }
}

impl<'de, 'a, 't> VariantAccess<'de> for &'a mut De<'t> {
    type Error = Error;
    fn unit_variant(self) -> Result<(), Error> {
        Ok(())
    }
    fn newtype_variant_seed<T: DeserializeSeed<'de>>(self, seed: T) -> Result<T::Value, Error> {
        seed.deserialize(self)
    }
    fn tuple_variant<V: Visitor<'de>>(self, len: usize, v: V) -> Result<V::Value, Error> {
        de::Deserializer::deserialize_tuple(self, len, v)
    }
    fn struct_variant<V: Visitor<'de>>(self, fields: &'static [&'static str], v: V) -> Result<V::Value, Error> {
        de::Deserializer::deserialize_tuple(self, fields.len(), v)
    }
}

impl<'de, 'a, 't> de::Deserializer<'de> for &'a mut De<'t> {
    type Error = Error;

    fn deserialize_any<V: Visitor<'de>>(self, _v: V) -> Result<V::Value, Error> {
        Err(Error("this format is not self-describing: deserialize_any is not supported".into()))
    }
    fn deserialize_bool<V: Visitor<'de>>(self, v: V) -> Result<V::Value, Error> {
        match self.next("a bool")? {
            Tok::Bool(b) => v.visit_bool(*b),
            other => Err(Error(format!("expected a bool, found {:?}", other))),
        }
    }
    de_int!(deserialize_i8, visit_i8, i8);
    de_int!(deserialize_i16, visit_i16, i16);
    de_int!(deserialize_i32, visit_i32, i32);
    de_int!(deserialize_i64, visit_i64, i64);
    de_int!(deserialize_u8, visit_u8, u8);
    de_int!(deserialize_u16, visit_u16, u16);
    de_int!(deserialize_u32, visit_u32, u32);
    de_int!(deserialize_u64, visit_u64, u64);
    fn deserialize_f32<V: Visitor<'de>>(self, v: V) -> Result<V::Value, Error> {
        self.deserialize_f64(v)
    }
    fn deserialize_f64<V: Visitor<'de>>(self, v: V) -> Result<V::Value, Error> {
        match self.next("a float")? {
            Tok::F(f) => v.visit_f64(*f),
            other => Err(Error(format!("expected a float, found {:?}", other))),
        }
    }
    fn deserialize_char<V: Visitor<'de>>(self, v: V) -> Result<V::Value, Error> {
        match self.next("a char")? {
            Tok::Char(c) => v.visit_char(*c),
            other => Err(Error(format!("expected a char, found {:?}", other))),
        }
    }
    fn deserialize_str<V: Visitor<'de>>(self, v: V) -> Result<V::Value, Error> {
        self.deserialize_string(v)
    }
    fn deserialize_string<V: Visitor<'de>>(self, v: V) -> Result<V::Value, Error> {
        match self.next("a string")? {
            Tok::Str(s) => v.visit_string(s.clone()),
            other => Err(Error(format!("expected a string, found {:?}", other))),
        }
    }
    fn deserialize_bytes<V: Visitor<'de>>(self, v: V) -> Result<V::Value, Error> {
        self.deserialize_byte_buf(v)
    }
    fn deserialize_byte_buf<V: Visitor<'de>>(self, v: V) -> Result<V::Value, Error> {
        match self.next("bytes")? {
            Tok::Bytes(b) => v.visit_byte_buf(b.clone()),
            other => Err(Error(format!("expected bytes, found {:?}", other))),
        }
    }
    fn deserialize_option<V: Visitor<'de>>(self, v: V) -> Result<V::Value, Error> {
        match self.next("an option")? {
            Tok::None => v.visit_none(),
            Tok::Some => v.visit_some(self),
            other => Err(Error(format!("expected an option, found {:?}", other))),
        }
    }
    fn deserialize_unit<V: Visitor<'de>>(self, v: V) -> Result<V::Value, Error> {
        match self.next("unit")? {
            Tok::Unit => v.visit_unit(),
            other => Err(Error(format!("expected unit, found {:?}", other))),
        }
    }
    fn deserialize_unit_struct<V: Visitor<'de>>(self, _n: &'static str, v: V) -> Result<V::Value, Error> {
        v.visit_unit()
    }
    fn deserialize_newtype_struct<V: Visitor<'de>>(self, _n: &'static str, v: V) -> Result<V::Value, Error> {
        v.visit_newtype_struct(self)
    }
    fn deserialize_seq<V: Visitor<'de>>(self, v: V) -> Result<V::Value, Error> {
        match self.next("the length of a sequence")? {
            Tok::SeqLen(n) => {
                let n = *n;
                let mut acc = Counted { de: self, left: n };
                let r = v.visit_seq(&mut acc)?;
                if acc.left != 0 {
                    return Err(Error(format!("{} element(s) of a sequence were not consumed", acc.left)));
                }
                Ok(r)
            }
            other => Err(Error(format!("expected the length of a sequence, found {:?}", other))),
        }
    }
    fn deserialize_tuple<V: Visitor<'de>>(self, len: usize, v: V) -> Result<V::Value, Error> {
        let mut acc = Counted { de: self, left: len };
        let r = v.visit_seq(&mut acc)?;
        if acc.left != 0 {
            return Err(Error(format!("{} element(s) of a tuple were not consumed", acc.left)));
        }
        Ok(r)
    }
    fn deserialize_tuple_struct<V: Visitor<'de>>(self, _n: &'static str, len: usize, v: V) -> Result<V::Value, Error> {
        self.deserialize_tuple(len, v)
    }
    fn deserialize_map<V: Visitor<'de>>(self, v: V) -> Result<V::Value, Error> {
        match self.next("the length of a map")? {
            Tok::MapLen(n) => {
                let n = *n;
                let mut acc = Counted { de: self, left: n };
                v.visit_map(&mut acc)
            }
            other => Err(Error(format!("expected the length of a map, found {:?}", other))),
        }
    }
    fn deserialize_struct<V: Visitor<'de>>(self, _n: &'static str, fields: &'static [&'static str], v: V) -> Result<V::Value, Error> {
        self.deserialize_tuple(fields.len(), v)
    }
    fn deserialize_enum<V: Visitor<'de>>(self, _n: &'static str, _vs: &'static [&'static str], v: V) -> Result<V::Value, Error> {
        v.visit_enum(self)
    }
    fn deserialize_identifier<V: Visitor<'de>>(self, _v: V) -> Result<V::Value, Error> {
        Err(Error("this format has no field names".into()))
    }
    fn deserialize_ignored_any<V: Visitor<'de>>(self, _v: V) -> Result<V::Value, Error> {
        Err(Error("this format is not self-describing: values cannot be skipped".into()))
    }
    fn is_human_readable(&self) -> bool {
        false
    }
}
