//! C20: graphs may be mutated from inside edge loops and traversal callbacks.
//! For every small shape, every kind of loop / traversal, every root and every
//! script "at callback step i perform operation o" (thorough: two operations),
//! the loop is run on the real code with the script executed from inside it.

use crate::core::*;
use crate::flavor::*;
use crate::gsweep::{build_world, shapes};
use crate::report::*;
use crate::seqx::Out;
use serde::{Deserialize, Serialize};
use serde_json::{json, Value};
use std::cell::{Cell, RefCell};

pub const BUDGET_MARK: &str = "GDSL_MC_LOOP_BUDGET";
/// script step meaning "at every callback"
pub const EVERY: usize = usize::MAX;

#[derive(Clone, Copy, Debug, PartialEq, Eq, Hash, Serialize, Deserialize)]
pub enum LoopKind {
    /// 0 = iter_out()/iter(), 1 = iter_in(), 2 = `for e in &n`,
    /// 3 / 4 = the out / in iterator driven by hand with size_hint() calls
    EdgeLoop(u8),
    Traversal(Cfg),
}

impl LoopKind {
    pub fn name(&self) -> String {
        match self {
            LoopKind::EdgeLoop(0) => "edge-iterator".into(),
            LoopKind::EdgeLoop(1) => "iter_in".into(),
            LoopKind::EdgeLoop(3) => "edge-iterator+size_hint".into(),
            LoopKind::EdgeLoop(4) => "iter_in+size_hint".into(),
            LoopKind::EdgeLoop(w @ 10..=39) => format!(
                "{}.{}",
                match w / 10 { 1 => "edge-iterator", 2 => "iter_in", _ => "(&node).into_iter()" },
                ["for_each", "fold", "map().sum()", "inspect().count()", "inspect().last()", "all()", "inspect().collect()", "nth(0) loop", "zip() loop", "inspect().max_by_key()"][(*w % 10) as usize]
            ),
            LoopKind::EdgeLoop(_) => "for-in-node".into(),
            LoopKind::Traversal(c) => format!("{}{}{}", c.kind.name(), if c.transpose { ".transpose" } else { "" }, if c.meth == Meth::Filter { "+filter" } else { "+for_each" }),
        }
    }
}

#[derive(Clone, Copy, Debug, PartialEq, Eq, Hash, Serialize, Deserialize, PartialOrd, Ord)]
pub enum SOp {
    Mut(Op),
    Degree(K),
    IsConnected(K, K),
    Find(K, K),
    /// nested complete edge loop over another node
    Collect(K),
    /// nested bfs().target(t).search()
    NestedBfs(K, K),
    /// nested dfs / pfs search_path to t and a nested preorder from the node
    NestedOther(K, K),
    /// clone a handle and drop it again
    CloneDrop(K),
}

impl SOp {
    pub fn kind(&self) -> &'static str {
        match self {
            SOp::Mut(op) => op.name(),
            SOp::Degree(_) | SOp::IsConnected(..) | SOp::Find(..) => "query",
            SOp::Collect(_) => "nested-loop",
            SOp::NestedBfs(..) | SOp::NestedOther(..) => "nested-search",
            SOp::CloneDrop(_) => "clone",
        }
    }
    pub fn show(&self) -> String {
        match self {
            SOp::Mut(op) => op.show(),
            SOp::Degree(u) => format!("n{}.degree()", u),
            SOp::IsConnected(u, v) => format!("n{}.is_connected(&{})", u, v),
            SOp::Find(u, v) => format!("n{}.find({})", u, v),
            SOp::Collect(u) => format!("n{}.iter().collect()", u),
            SOp::NestedBfs(u, t) => format!("n{}.bfs().target(&{}).search()", u, t),
            SOp::NestedOther(u, t) => format!("n{}.dfs()/.pfs().target(&{}).search_path(); n{}.preorder/order().search_nodes()", u, t, u),
            SOp::CloneDrop(u) => format!("drop(n{}.clone())", u),
        }
    }
    fn adds_edge(&self) -> bool {
        matches!(self, SOp::Mut(Op::Connect(..)) | SOp::Mut(Op::TryConnect(..)))
    }
}

fn run_sop<F: Fl>(w: &World<F>, s: &SOp) {
    let n = |k: K| &w.nodes[k as usize];
    match *s {
        SOp::Mut(op) => {
            let _ = w.apply_raw(&op);
        }
        SOp::Degree(u) => {
            let _ = (F::deg_out(n(u)), F::deg_in(n(u)), F::is_orphan(n(u)));
        }
        SOp::IsConnected(u, v) => {
            let _ = F::is_connected(n(u), v);
        }
        SOp::Find(u, v) => {
            let _ = (F::find_out(n(u), v), F::find_in(n(u), v));
        }
        SOp::Collect(u) => {
            let _ = (F::edges_out(n(u)), F::edges_in(n(u)));
        }
        SOp::NestedBfs(u, t) => {
            let cfg = Cfg { kind: Kind::Bfs, transpose: false, target: Some(t), meth: Meth::None, res: ResK::Search, alt: false, tt: false };
            let _ = F::search(n(u), &cfg, &mut |_| true);
        }
        SOp::NestedOther(u, t) => {
            for kind in [Kind::Dfs, Kind::PfsMin] {
                let cfg = Cfg { kind, transpose: false, target: Some(t), meth: Meth::None, res: ResK::Path, alt: false, tt: false };
                let _ = F::search(n(u), &cfg, &mut |_| true);
            }
            let cfg = Cfg { kind: Kind::Pre, transpose: false, target: None, meth: Meth::None, res: ResK::Nodes, alt: false, tt: false };
            let _ = F::search(n(u), &cfg, &mut |_| true);
        }
        SOp::CloneDrop(u) => {
            drop(n(u).clone());
        }
    }
}

pub fn script_ops(n: usize) -> Vec<SOp> {
    let mut v: Vec<SOp> = crate::seqx::alphabet(n, 1).into_iter().map(|op| match op {
        Op::Connect(a, b, _) => SOp::Mut(Op::Connect(a, b, 9)),
        Op::TryConnect(a, b, _) => SOp::Mut(Op::TryConnect(a, b, 9)),
        o => SOp::Mut(o),
    }).collect();
    for u in 0..n as K {
        v.push(SOp::Degree(u));
        v.push(SOp::Collect(u));
        v.push(SOp::CloneDrop(u));
        for t in 0..n as K {
            v.push(SOp::IsConnected(u, t));
            v.push(SOp::Find(u, t));
            if u != t {
                v.push(SOp::NestedBfs(u, t));
                v.push(SOp::NestedOther(u, t));
            }
        }
    }
    v
}

pub fn loop_kinds(directed: bool, n: usize, root: K) -> Vec<LoopKind> {
    let mut v = vec![LoopKind::EdgeLoop(0), LoopKind::EdgeLoop(2), LoopKind::EdgeLoop(3)];
    if directed {
        v.push(LoopKind::EdgeLoop(1));
        v.push(LoopKind::EdgeLoop(4));
    }
    // internal iteration through the iterator's adaptor methods
    for w in 0..10u8 {
        v.push(LoopKind::EdgeLoop(10 + w));
        if directed {
            v.push(LoopKind::EdgeLoop(20 + w));
        }
        v.push(LoopKind::EdgeLoop(30 + w));
    }
    let mut targets: Vec<Option<K>> = vec![None];
    targets.extend((0..n as K).filter(|t| *t != root).map(Some));
    for kind in ALL_KINDS {
        for transpose in if directed { vec![false, true] } else { vec![false] } {
            for meth in [Meth::ForEach, Meth::Filter] {
                if kind.is_order() {
                    for res in [ResK::Nodes, ResK::Edges] {
                        v.push(LoopKind::Traversal(Cfg { kind, transpose, target: None, meth, res, alt: false, tt: false }));
                    }
                } else {
                    for t in &targets {
                        v.push(LoopKind::Traversal(Cfg { kind, transpose, target: *t, meth, res: ResK::Path, alt: false, tt: false }));
                        // search() runs through helpers of its own in the library
                        v.push(LoopKind::Traversal(Cfg { kind, transpose, target: *t, meth, res: ResK::Search, alt: false, tt: false }));
                    }
                    v.push(LoopKind::Traversal(Cfg { kind, transpose, target: None, meth, res: ResK::Cycle, alt: false, tt: false }));
                }
            }
        }
    }
    v
}

#[derive(Clone, Debug, Serialize, Deserialize)]
pub struct LCase {
    pub n: usize,
    pub conns: Vec<(K, K)>,
    pub root: K,
    pub lk: LoopKind,
    /// (callback step, operation)
    pub script: Vec<(usize, SOp)>,
    /// filter closures only: the closure returns `false` (rejects the edge it
    /// was handed) at every step at which it runs an operation of the script
    #[serde(default)]
    pub reject: bool,
}

impl LCase {
    pub fn program(&self, flavour: &str) -> String {
        let mut s = format!("{}: ", flavour);
        for (i, (u, v)) in self.conns.iter().enumerate() {
            s += &format!("n{}.connect(&n{}, {}); ", u, v, i + 1);
        }
        s += &format!(
            "loop over n{} [{}{}]",
            self.root,
            self.lk.name(),
            match self.lk {
                LoopKind::Traversal(c) => format!(".{}{}", c.res.name(), c.target.map_or(String::new(), |t| format!(" target {}", t))),
                _ => String::new(),
            }
        );
        for (i, o) in &self.script {
            if *i == EVERY {
                s += &format!("; at every callback do {}", o.show());
            } else {
                s += &format!("; at callback {} do {}", i, o.show());
            }
        }
        if self.reject {
            s += " and reject the edge (return false)";
        }
        s
    }
}

pub struct LRun {
    pub callbacks: usize,
    pub fired: usize,
}

/// Run one case. Err((code, detail)) on a violation.
pub fn run_case<F: Fl>(c: &LCase) -> Result<LRun, (String, String)> {
    let vals: Vec<i8> = (0..c.n).map(|k| default_val(k as K)).collect();
    let w = build_world::<F>(&vals, &c.conns);
    let adds = c.script.iter().filter(|(_, o)| o.adds_edge()).count();
    let budget = 4 * (c.conns.len() + adds) + 8;
    let count = Cell::new(0usize);
    let fired = Cell::new(0usize);
    let stale: RefCell<Option<String>> = RefCell::new(None);
    let transposed = matches!(c.lk, LoopKind::Traversal(cfg) if cfg.transpose);
    let body = |e: &F::Edge| -> bool {
        let step = count.get();
        if step >= budget {
            panic!("{}", BUDGET_MARK);
        }
        count.set(step + 1);
        // the yielded edge must exist right now, with its true endpoints and value
        let (a, b, x) = F::edge_parts(e);
        let (ka, kb) = (F::key(&a), F::key(&b));
        let exists = if transposed {
            // stored kb -> ka, reported reversed
            F::edges_out(&w.nodes[kb as usize]).iter().any(|y| F::edge_accessors(y) == (kb, ka, x))
        } else if matches!(c.lk, LoopKind::EdgeLoop(1) | LoopKind::EdgeLoop(4) | LoopKind::EdgeLoop(20..=29)) {
            F::edges_in(&w.nodes[kb as usize]).iter().any(|y| F::edge_accessors(y) == (ka, kb, x))
        } else {
            F::edges_out(&w.nodes[ka as usize]).iter().any(|y| F::edge_accessors(y) == (ka, kb, x))
        };
        if !exists && stale.borrow().is_none() {
            *stale.borrow_mut() = Some(format!("callback {} was handed ({}, {}, {}), which is not an edge of the graph at that moment", step, ka, kb, x));
        }
        if F::pval(&a) != default_val(ka) || F::pval(&b) != default_val(kb) {
            *stale.borrow_mut() = Some(format!("callback {}: endpoints of the yielded edge carry wrong values", step));
        }
        let mut verdict = true;
        for (i, o) in &c.script {
            if *i == step || *i == EVERY {
                if *i != EVERY || step == 0 {
                    fired.set(fired.get() + 1);
                }
                run_sop::<F>(&w, o);
                if c.reject {
                    verdict = false;
                }
            }
        }
        verdict
    };
    let r = guarded(|| match c.lk {
        LoopKind::EdgeLoop(which) => {
            let mut b = |e: &F::Edge| {
                body(e);
            };
            F::edge_loop(&w.nodes[c.root as usize], which, budget + 1, &mut b);
        }
        LoopKind::Traversal(cfg) => {
            let mut b = body;
            let _ = F::search(&w.nodes[c.root as usize], &cfg, &mut b);
        }
    });
    let last_kind = c.script.iter().map(|(_, o)| o.kind()).collect::<Vec<_>>().join("+");
    let class = |code: &str| format!("{}/{}/{}", c.lk.name(), code, if last_kind.is_empty() { "no-script" } else { &last_kind });
    if let Err(f) = r {
        return match &f {
            Fail::Panic(m) if m.contains(BUDGET_MARK) => Err((class("loop-does-not-terminate"), format!("{}: more than {} callbacks although the script adds only {} edge(s)", c.program(F::NAME), budget, adds))),
            _ => Err((class(f.kind()), format!("{}: {}", c.program(F::NAME), f.msg()))),
        };
    }
    if let Some(s) = stale.borrow().clone() {
        return Err((class("yielded-nonexistent-edge"), format!("{}: {}", c.program(F::NAME), s)));
    }
    // handles obtained before the loop are still usable; the final state is
    // the one reached by the same operations outside any loop
    let after = guarded(|| {
        for (k, nd) in w.nodes.iter().enumerate() {
            if F::key(nd) as usize != k || F::pval(nd) != default_val(k as K) {
                return Err(format!("handle of n{} answers key {} value {}", k, F::key(nd), F::pval(nd)));
            }
            let _ = (F::deg_out(nd), F::is_orphan(nd));
        }
        Ok(w.observe_raw())
    });
    let obs = match after {
        Ok(Ok(o)) => o,
        Ok(Err(d)) => return Err((class("handle-invalidated"), format!("{}: {}", c.program(F::NAME), d))),
        Err(f) => return Err((class(&format!("after-loop-{}", f.kind())), format!("{}: using the nodes after the loop failed: {}", c.program(F::NAME), f.msg()))),
    };
    // (the mirror / symmetry invariants of the final state are C01 / C02's
    // business; here the effect of the operations must not depend on being
    // called from inside the loop)
    if fired.get() == c.script.len() && c.script.iter().all(|(i, _)| *i != EVERY) {
        let w2 = build_world::<F>(&vals, &c.conns);
        let seq = guarded(|| {
            let mut s: Vec<&(usize, SOp)> = c.script.iter().collect();
            s.sort_by_key(|x| x.0);
            for (_, o) in s {
                run_sop::<F>(&w2, o);
            }
            w2.observe_raw()
        });
        if let Ok(o2) = seq {
            let strip = |o: &WorldObs| -> WorldObs { o.iter().map(|n| NodeObs { out: n.out.clone(), inn: n.inn.clone(), sizeof: 0 }).collect() };
            if strip(&o2) != strip(&obs) {
                return Err((class("final-state-differs-from-sequential"), format!("{}: final adjacency {:?}, the same operations outside the loop give {:?}", c.program(F::NAME), strip(&obs), strip(&o2))));
            }
        }
    }
    Ok(LRun { callbacks: count.get(), fired: fired.get() })
}

/// What a program running the loop observes, as plain data: the edges handed
/// to the loop body / closure, the result of the traversal and the adjacency
/// afterwards. Used by the lock-step comparison of the plain and sync
/// flavours (C15); no oracle is applied here.
pub fn run_trace<F: Fl>(c: &LCase) -> String {
    let vals: Vec<i8> = (0..c.n).map(|k| default_val(k as K)).collect();
    let w = build_world::<F>(&vals, &c.conns);
    let adds = c.script.iter().filter(|(_, o)| o.adds_edge()).count();
    let budget = 4 * (c.conns.len() + adds) + 8;
    let count = Cell::new(0usize);
    let trace: RefCell<Vec<Arc3>> = RefCell::new(Vec::new());
    let body = |e: &F::Edge| -> bool {
        let step = count.get();
        if step >= budget {
            panic!("{}", BUDGET_MARK);
        }
        count.set(step + 1);
        trace.borrow_mut().push(F::edge_accessors(e));
        for (i, o) in &c.script {
            if *i == step || *i == EVERY {
                run_sop::<F>(&w, o);
            }
        }
        true
    };
    let r = guarded(|| match c.lk {
        LoopKind::EdgeLoop(which) => {
            let mut b = |e: &F::Edge| {
                body(e);
            };
            F::edge_loop(&w.nodes[c.root as usize], which, budget + 1, &mut b);
            String::new()
        }
        LoopKind::Traversal(cfg) => {
            let mut b = body;
            let (res, _) = F::search(&w.nodes[c.root as usize], &cfg, &mut b);
            format!("{:?}", res)
        }
    });
    match r {
        Ok(res) => {
            let fin = guarded(|| w.observe_raw().iter().map(|n| (n.out.clone(), n.inn.clone())).collect::<Vec<_>>());
            match fin {
                Ok(f) => format!("handed {:?}; result {}; adjacency afterwards {:?}", trace.borrow(), res, f),
                Err(_) => "<did not return>".to_string(),
            }
        }
        Err(_) => "<did not return>".to_string(),
    }
}

/// Container-owned mode: every node is owned by a `Graph` container (the
/// program keeps only a handle of the loop's root); at callback step `step`
/// the closure isolates node `victim` and removes it from the container, which
/// releases it unless the running loop itself keeps it alive.
#[derive(Clone, Debug, Serialize, Deserialize)]
pub struct OCase {
    pub n: usize,
    pub conns: Vec<(K, K)>,
    pub root: K,
    pub lk: LoopKind,
    pub step: usize,
    pub victim: K,
}

impl OCase {
    pub fn program(&self, flavour: &str) -> String {
        let mut s = format!("{}: ", flavour);
        for (i, (u, v)) in self.conns.iter().enumerate() {
            s += &format!("n{}.connect(&n{}, {}); ", u, v, i + 1);
        }
        s += &format!("all nodes inserted into a Graph g, the program keeps only n{}; loop over n{} [{}{}]", self.root, self.root, self.lk.name(), match self.lk {
            LoopKind::Traversal(c) => format!(".{}{}", c.res.name(), c.target.map_or(String::new(), |t| format!(" target {}", t))),
            _ => String::new(),
        });
        if self.step != EVERY {
            s += &format!("; at callback {} do g[{}].isolate(); g.remove(&{})", self.step, self.victim, self.victim);
        }
        s
    }
}

pub fn run_owned<F: Fl>(c: &OCase) -> Result<usize, (String, String)> {
    if F::SYNC {
        ensure_monitor();
    }
    let vals: Vec<i8> = (0..c.n).map(|k| default_val(k as K)).collect();
    let w = build_world::<F>(&vals, &c.conns);
    let g = RefCell::new(F::g_new());
    for nd in &w.nodes {
        F::g_insert(&mut g.borrow_mut(), nd.clone());
    }
    let root = w.nodes[c.root as usize].clone();
    drop(w);
    let budget = 4 * c.conns.len() + 8;
    let count = Cell::new(0usize);
    let stale: RefCell<Option<String>> = RefCell::new(None);
    let transposed = matches!(c.lk, LoopKind::Traversal(cfg) if cfg.transpose);
    let body = |e: &F::Edge| -> bool {
        let step = count.get();
        if step >= budget {
            panic!("{}", BUDGET_MARK);
        }
        count.set(step + 1);
        let (a, b, x) = F::edge_parts(e);
        let (ka, kb) = (F::key(&a), F::key(&b));
        let exists = if transposed {
            F::edges_out(&b).iter().any(|y| F::edge_accessors(y) == (kb, ka, x))
        } else if matches!(c.lk, LoopKind::EdgeLoop(1) | LoopKind::EdgeLoop(4) | LoopKind::EdgeLoop(20..=29)) {
            F::edges_in(&b).iter().any(|y| F::edge_accessors(y) == (ka, kb, x))
        } else {
            F::edges_out(&a).iter().any(|y| F::edge_accessors(y) == (ka, kb, x))
        };
        if !exists && stale.borrow().is_none() {
            *stale.borrow_mut() = Some(format!("callback {} was handed ({}, {}, {}), which is not an edge of the graph at that moment", step, ka, kb, x));
        }
        drop((a, b));
        if step == c.step {
            let v = F::g_get(&g.borrow(), c.victim);
            if let Some(v) = v {
                F::isolate(&v);
                drop(v);
                drop(F::g_remove(&mut g.borrow_mut(), c.victim));
            }
        }
        true
    };
    let r = guarded(|| match c.lk {
        LoopKind::EdgeLoop(which) => {
            let mut b = |e: &F::Edge| {
                body(e);
            };
            F::edge_loop(&root, which, budget + 1, &mut b);
        }
        LoopKind::Traversal(cfg) => {
            let mut b = body;
            let _ = F::search(&root, &cfg, &mut b);
        }
    });
    let class = |code: &str| format!("{}/{}/isolate+remove-from-owning-container", c.lk.name(), code);
    if let Err(f) = r {
        return match &f {
            Fail::Panic(m) if m.contains(BUDGET_MARK) => Err((class("loop-does-not-terminate"), format!("{}: more than {} callbacks", c.program(F::NAME), budget))),
            _ => Err((class(f.kind()), format!("{}: {}", c.program(F::NAME), f.msg()))),
        };
    }
    if let Some(s) = stale.borrow().clone() {
        return Err((class("yielded-nonexistent-edge"), format!("{}: {}", c.program(F::NAME), s)));
    }
    let removed = c.step < count.get();
    let after = guarded(|| -> Result<(), String> {
        let g = g.borrow();
        for k in 0..c.n as K {
            match F::g_get(&g, k) {
                Some(nd) => {
                    if removed && k == c.victim {
                        return Err(format!("n{} is still a member after g.remove", k));
                    }
                    if F::key(&nd) != k || F::pval(&nd) != default_val(k) {
                        return Err(format!("member n{} answers key {} value {}", k, F::key(&nd), F::pval(&nd)));
                    }
                    let _ = (F::deg_out(&nd), F::is_orphan(&nd), F::edges_out(&nd), F::edges_in(&nd));
                }
                None => {
                    if !(removed && k == c.victim) {
                        return Err(format!("member n{} disappeared", k));
                    }
                }
            }
        }
        let _ = (F::key(&root), F::deg_out(&root), F::edges_out(&root));
        Ok(())
    });
    match after {
        Ok(Ok(())) => Ok(count.get()),
        Ok(Err(d)) => Err((class("handle-invalidated"), format!("{}: {}", c.program(F::NAME), d))),
        Err(f) => Err((class(&format!("after-loop-{}", f.kind())), format!("{}: using the graph after the loop failed: {}", c.program(F::NAME), f.msg()))),
    }
}

fn owned_sweep<F: Fl>(job: &Job, p: &LParams, out: &mut Out) {
    let prop = job.property.as_str();
    let all = shapes::<F>(p.n, p.max_l);
    for (si, conns) in all.iter().enumerate() {
        if si % job.nshards != job.shard {
            continue;
        }
        out.stats.inc("shapes");
        crate::progress::set_case(|| json!({"kind":"loopx-shape","flavour":F::NAME,"n":p.n,"conns":conns}).to_string());
        for root in 0..p.n as K {
            for lk in loop_kinds(F::DIRECTED, p.n, root) {
                let base = OCase { n: p.n, conns: conns.clone(), root, lk, step: EVERY, victim: 0 };
                out.stats.inc("evaluations");
                let report = |out: &mut Out, c: &OCase, class: String, what: String| {
                    out.report(Violation {
                        property: prop.into(),
                        engine: "loopx".into(),
                        flavour: F::NAME.into(),
                        class,
                        what,
                        case: json!({"kind":"loopx-owned","flavour":F::NAME,"case":c,"program":c.program(F::NAME)}),
                        order: (c.conns.len() * 100 + if c.step == EVERY { 0 } else { c.step + 1 }) as u64,
                    });
                };
                let c0 = match run_owned::<F>(&base) {
                    Ok(n) => n,
                    Err((class, what)) => {
                        report(out, &base, class, what);
                        continue;
                    }
                };
                for step in 0..c0 {
                    for victim in 0..p.n as K {
                        crate::progress::tick();
                        let c = OCase { step, victim, ..base.clone() };
                        out.stats.inc("evaluations");
                        out.stats.inc("nontrivial");
                        out.stats.inc("owned_container_scripts");
                        if let Err((class, what)) = run_owned::<F>(&c) {
                            report(out, &c, class, what);
                        }
                    }
                }
            }
        }
    }
}

#[derive(Serialize, Deserialize, Clone, Debug)]
pub struct LParams {
    pub n: usize,
    pub max_l: usize,
    pub two_ops: bool,
    /// large mode: instead of all shapes, the hub families with these edge counts
    #[serde(default)]
    pub large: Vec<usize>,
    /// container-owned mode (see `OCase`)
    #[serde(default)]
    pub owned: bool,
}

/// Hub-heavy multigraphs on 3 nodes with `k` edges (adjacency lists far longer
/// than in the exhaustively enumerated shapes).
pub fn large_shapes(ks: &[usize]) -> Vec<Vec<(K, K)>> {
    let fams: [fn(usize) -> (K, K); 5] = [
        |i| (0, 1 + (i % 2) as K),
        |i| (1 + (i % 2) as K, 0),
        |_| (0, 1),
        |_| (0, 0),
        |i| match i % 4 {
            0 => (0, 1),
            1 => (1, 0),
            2 => (0, 0),
            _ => (2, 0),
        },
    ];
    let mut v = Vec::new();
    for k in ks {
        for f in fams.iter() {
            v.push((0..*k).map(|i| f(i)).collect());
        }
    }
    v
}

pub fn sweep<F: Fl>(job: &Job, out: &mut Out) {
    let p: LParams = serde_json::from_value(job.params.clone()).expect("loopx params");
    if p.owned {
        return owned_sweep::<F>(job, &p, out);
    }
    let prop = job.property.as_str();
    let all = if p.large.is_empty() { shapes::<F>(p.n, p.max_l) } else { large_shapes(&p.large) };
    let sops = script_ops(p.n);
    let report = |out: &mut Out, c: &LCase, class: String, what: String| {
        out.report(Violation {
            property: prop.into(),
            engine: "loopx".into(),
            flavour: F::NAME.into(),
            class,
            what,
            case: json!({"kind":"loopx","flavour":F::NAME,"case":c,"program":c.program(F::NAME)}),
            order: (c.conns.len() * 100 + c.script.len() * 10 + c.script.iter().map(|s| if s.0 == EVERY { 50 } else { s.0 }).sum::<usize>()) as u64,
        });
    };
    for (si, conns) in all.iter().enumerate() {
        if si % job.nshards != job.shard {
            continue;
        }
        out.stats.inc("shapes");
        crate::progress::set_case(|| json!({"kind":"loopx-shape","flavour":F::NAME,"n":p.n,"conns":conns}).to_string());
        for root in 0..p.n as K {
            for lk in loop_kinds(F::DIRECTED, p.n, root) {
                let base = LCase { n: p.n, conns: conns.clone(), root, lk, script: vec![], reject: false };
                out.stats.inc("evaluations");
                let c0 = match run_case::<F>(&base) {
                    Ok(r) => r.callbacks,
                    Err((class, what)) => {
                        report(out, &base, class, what);
                        continue;
                    }
                };
                if c0 > 0 {
                    for o in sops.iter().filter(|o| !o.adds_edge()) {
                        crate::progress::tick();
                        let ce = LCase { script: vec![(EVERY, *o)], ..base.clone() };
                        out.stats.inc("evaluations");
                        out.stats.inc("every_step_scripts");
                        if matches!(o, SOp::Mut(_)) {
                            out.stats.inc("nontrivial");
                        }
                        if let Err((class, what)) = run_case::<F>(&ce) {
                            report(out, &ce, class, what);
                        }
                    }
                }
                // a filter that rejects the very edge at which it changes the graph
                if matches!(lk, LoopKind::Traversal(cfg) if cfg.meth == Meth::Filter) {
                    for i in 0..c0 {
                        for o in sops.iter().filter(|o| matches!(o, SOp::Mut(_))) {
                            crate::progress::tick();
                            let cr = LCase { script: vec![(i, *o)], reject: true, ..base.clone() };
                            out.stats.inc("evaluations");
                            out.stats.inc("nontrivial");
                            out.stats.inc("rejecting_filter_scripts");
                            if let Err((class, what)) = run_case::<F>(&cr) {
                                report(out, &cr, class, what);
                            }
                        }
                    }
                }
                for i in 0..c0 {
                    for o in &sops {
                        crate::progress::tick();
                        let c1 = LCase { script: vec![(i, *o)], ..base.clone() };
                        out.stats.inc("evaluations");
                        match run_case::<F>(&c1) {
                            Ok(r) => {
                                if matches!(o, SOp::Mut(_)) {
                                    out.stats.inc("nontrivial");
                                }
                                out.stats.max("max_callbacks", r.callbacks as u64);
                                if out.stats.outcomes.len() < 500 {
                                    out.stats.outcome(format!("{}:{}", lk.name(), r.callbacks));
                                }
                                if out.stats.samples.len() < 3 && r.callbacks > c0 {
                                    out.stats.sample(json!({"case": c1.program(F::NAME), "callbacks": r.callbacks, "callbacks_without_script": c0}));
                                }
                                if p.two_ops && matches!(o, SOp::Mut(_)) {
                                    for j in i..(r.callbacks.max(i + 1)) {
                                        for o2 in &sops {
                                            if !matches!(o2, SOp::Mut(_)) {
                                                continue;
                                            }
                                            let c2 = LCase { script: vec![(i, *o), (j, *o2)], ..base.clone() };
                                            out.stats.inc("evaluations");
                                            out.stats.inc("nontrivial");
                                            out.stats.inc("two_op_scripts");
                                            if let Err((class, what)) = run_case::<F>(&c2) {
                                                report(out, &c2, class, what);
                                            }
                                        }
                                    }
                                }
                            }
                            Err((class, what)) => report(out, &c1, class, what),
                        }
                    }
                }
            }
        }
    }
}

pub fn replay<F: Fl>(prop: &str, case: &Value) -> Vec<Violation> {
    let mut out = Out::new();
    if case["kind"] == "loopx-shape" {
        return vec![];
    }
    if case["kind"] == "loopx-owned" {
        let c: OCase = serde_json::from_value(case["case"].clone()).expect("loopx owned case");
        println!("  program: {}", c.program(F::NAME));
        match run_owned::<F>(&c) {
            Ok(n) => println!("  completed: {} callbacks", n),
            Err((class, what)) => out.report(Violation { property: prop.into(), engine: "loopx".into(), flavour: F::NAME.into(), class, what, case: case.clone(), order: 0 }),
        }
        return out.viols.into_values().collect();
    }
    let c: LCase = serde_json::from_value(case["case"].clone()).expect("loopx case");
    println!("  program: {}", c.program(F::NAME));
    match run_case::<F>(&c) {
        Ok(r) => println!("  completed: {} callbacks, {} script operations fired", r.callbacks, r.fired),
        Err((class, what)) => out.report(Violation { property: prop.into(), engine: "loopx".into(), flavour: F::NAME.into(), class, what, case: case.clone(), order: 0 }),
    }
    out.viols.into_values().collect()
}
