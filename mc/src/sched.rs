//! C17: deterministic scheduler over the lock acquisitions of the sync
//! flavours and a preemption-bounded, stateless DFS over all interleavings
//! (CHESS-style). Scenario threads are real OS threads, but exactly one runs at
//! a time: the `LockHook` installed through the cfg(gdsl_verif) RwLock wrapper
//! parks a thread before every `read()` / `write()` and the controller decides
//! who goes next.

use crate::core::*;
use crate::flavor::*;
use crate::model::{check_mirror, check_symmetry};
use crate::report::*;
use crate::seqx::Out;
use gdsl::verif::{LockHook, Mode};
use serde::{Deserialize, Serialize};
use serde_json::{json, Value};
use std::collections::{BTreeMap, BTreeSet, HashMap};
use std::panic::{catch_unwind, AssertUnwindSafe};
use std::rc::Rc;
use std::sync::{Arc, Condvar, Mutex};

// ---------------------------------------------------------------------------
// Scenario vocabulary
// ---------------------------------------------------------------------------

#[derive(Clone, Copy, Debug, PartialEq, Eq, Hash, Serialize, Deserialize, PartialOrd, Ord)]
pub enum Call {
    Mut(Op),
    /// degree / out_degree
    Degree(K),
    InDegree(K),
    IsOrphan(K),
    IsConnected(K, K),
    Find(K, K),
    /// iter_out().collect() / iter().collect()
    Collect(K),
    /// iter_in().collect()
    CollectIn(K),
    /// bfs().target(t).search()
    Bfs(K, K),
    /// dfs().target(t).search_path() and pfs().target(t).search_path()
    DfsPfs(K, K),
    /// preorder / postorder (order().pre()/.post()) search_nodes and a dfs cycle search
    Orders(K),
    /// is_root / is_leaf / find_inbound / sizeof / `for e in &n` / node comparison
    Preds(K, K),
    /// transposed searches and orderings (directed) / max-first and cycle searches (both)
    Trans(K, K),
    /// every kind of edge loop whose body queries the yielded edge's endpoints and the iterated node
    LoopQ(K),
    /// every traversal kind with a for_each / filter closure that queries the edge's endpoints
    TravQ(K),
    /// read-only views of a container holding all nodes: roots / leaves / orphans / scc / to_dot / JSON
    Views,
}

impl Call {
    pub fn is_mut(&self) -> bool {
        matches!(self, Call::Mut(_))
    }
    pub fn show(&self) -> String {
        match self {
            Call::Mut(op) => op.show(),
            Call::Degree(u) => format!("n{}.degree()", u),
            Call::InDegree(u) => format!("n{}.in_degree()", u),
            Call::IsOrphan(u) => format!("n{}.is_orphan()", u),
            Call::IsConnected(u, v) => format!("n{}.is_connected(&{})", u, v),
            Call::Find(u, v) => format!("n{}.find({})", u, v),
            Call::Collect(u) => format!("n{}.iter().collect()", u),
            Call::CollectIn(u) => format!("n{}.iter_in().collect()", u),
            Call::Bfs(u, t) => format!("n{}.bfs().target(&{}).search()", u, t),
            Call::DfsPfs(u, t) => format!("n{}.dfs()/.pfs().target(&{}).search_path()", u, t),
            Call::Orders(u) => format!("n{}.preorder()/.postorder().search_nodes(); n{}.dfs().search_cycle()", u, u),
            Call::Preds(u, v) => format!("n{}.is_root()/.is_leaf()/.find_inbound(&{})/.sizeof(); for e in &n{}; n{} < n{}", u, v, u, u, v),
            Call::Trans(u, t) => format!("n{}.bfs()/.dfs()/.pfs().max() [.transpose()].target(&{}); transposed orderings; bfs/pfs cycle", u, t),
            Call::LoopQ(u) => format!("for e in n{}.iter*() {{ queries on e.source(), e.target(), n{} }}", u, u),
            Call::TravQ(u) => format!("n{}.<every traversal>().for_each/filter(|e| queries on e.source(), e.target())", u),
            Call::Views => "g.roots()/.leaves()/.orphans()/.scc()/.to_dot()/to_json(g)".to_string(),
        }
    }
    fn nodes(&self) -> Vec<K> {
        match *self {
            Call::Mut(Op::Connect(u, v, _)) | Call::Mut(Op::TryConnect(u, v, _)) | Call::Mut(Op::Disconnect(u, v)) => vec![u, v],
            Call::Mut(Op::Isolate(u)) => vec![u],
            Call::Degree(u) | Call::InDegree(u) | Call::IsOrphan(u) | Call::Collect(u) | Call::CollectIn(u) | Call::Orders(u) => vec![u],
            Call::IsConnected(u, v) | Call::Find(u, v) | Call::Bfs(u, v) | Call::DfsPfs(u, v) | Call::Preds(u, v) | Call::Trans(u, v) => vec![u, v],
            Call::LoopQ(u) | Call::TravQ(u) => vec![u],
            Call::Views => vec![],
        }
    }
    /// Name with nodes renamed through `map` and edge values dropped.
    fn abstract_name(&self, map: &dyn Fn(K) -> K) -> String {
        match *self {
            Call::Mut(Op::Connect(u, v, _)) => format!("connect({},{})", map(u), map(v)),
            Call::Mut(Op::TryConnect(u, v, _)) => format!("try_connect({},{})", map(u), map(v)),
            Call::Mut(Op::Disconnect(u, v)) => format!("disconnect({},{})", map(u), map(v)),
            Call::Mut(Op::Isolate(u)) => format!("isolate({})", map(u)),
            Call::Degree(u) => format!("degree({})", map(u)),
            Call::InDegree(u) => format!("in_degree({})", map(u)),
            Call::IsOrphan(u) => format!("is_orphan({})", map(u)),
            Call::IsConnected(u, v) => format!("is_connected({},{})", map(u), map(v)),
            Call::Find(u, v) => format!("find({},{})", map(u), map(v)),
            Call::Collect(u) => format!("collect({})", map(u)),
            Call::CollectIn(u) => format!("collect_in({})", map(u)),
            Call::Bfs(u, v) => format!("bfs({},{})", map(u), map(v)),
            Call::DfsPfs(u, v) => format!("dfs_pfs({},{})", map(u), map(v)),
            Call::Orders(u) => format!("orders({})", map(u)),
            Call::Preds(u, v) => format!("preds({},{})", map(u), map(v)),
            Call::Trans(u, v) => format!("trans({},{})", map(u), map(v)),
            Call::LoopQ(u) => format!("loopq({})", map(u)),
            Call::TravQ(u) => format!("travq({})", map(u)),
            Call::Views => "views()".to_string(),
        }
    }
}

/// Canonical name of an unordered pair of calls up to renaming of nodes.
pub fn canonical_pair(a: &Call, b: &Call) -> String {
    let mut best: Option<String> = None;
    for (x, y) in [(a, b), (b, a)] {
        // rename nodes in order of first appearance
        let mut order: Vec<K> = Vec::new();
        for k in x.nodes().into_iter().chain(y.nodes()) {
            if !order.contains(&k) {
                order.push(k);
            }
        }
        let map = |k: K| order.iter().position(|o| *o == k).unwrap() as K;
        let s = format!("{} || {}", x.abstract_name(&map), y.abstract_name(&map));
        if best.as_ref().map_or(true, |b| s < *b) {
            best = Some(s);
        }
    }
    best.unwrap()
}

#[derive(Clone, Debug, Serialize, Deserialize)]
pub struct Scenario {
    pub n: usize,
    pub init: Vec<Arc3>,
    pub threads: Vec<Vec<Call>>,
    /// node keys from the lowest to the highest allocation address. Lock
    /// ordering protocols depend on it, so it is an explored, replayable input
    /// (empty = whatever the allocator gives).
    #[serde(default)]
    pub addr_order: Vec<K>,
}

impl Scenario {
    pub fn show(&self) -> String {
        let init: Vec<String> = self.init.iter().map(|(u, v, e)| format!("n{}.connect(&n{}, {})", u, v, e)).collect();
        let th: Vec<String> = self
            .threads
            .iter()
            .enumerate()
            .map(|(i, t)| format!("T{}: {}", i, t.iter().map(|c| c.show()).collect::<Vec<_>>().join("; ")))
            .collect();
        format!("{} nodes (address order {:?}); init [{}]; {}", self.n, self.addr_order, init.join("; "), th.join("  ||  "))
    }
    /// Canonical description of the calls (for classes of larger scenarios).
    pub fn canonical_calls(&self) -> String {
        let id = |k: K| k;
        let mut th: Vec<String> = self.threads.iter().map(|t| t.iter().map(|c| c.abstract_name(&id)).collect::<Vec<_>>().join(";")).collect();
        th.sort();
        th.join(" || ")
    }
}

#[derive(Clone, Debug, PartialEq, Eq, Hash, Serialize, Deserialize, PartialOrd, Ord)]
pub enum CallRet {
    Ret(Ret),
    /// result of a query: returned normally (value not compared)
    Returned,
    Panicked(String),
    NotRun,
}

fn do_call<F: Fl>(nodes: &[F::Node], c: &Call) -> CallRet {
    let n = |k: K| &nodes[k as usize];
    match *c {
        Call::Mut(op) => CallRet::Ret(match op {
            Op::Connect(u, v, e) => {
                F::connect(n(u), n(v), e);
                Ret::Unit
            }
            Op::TryConnect(u, v, e) => Ret::Res(F::try_connect(n(u), n(v), e)),
            Op::Disconnect(u, v) => Ret::Val(F::disconnect(n(u), v)),
            Op::Isolate(u) => {
                F::isolate(n(u));
                Ret::Unit
            }
        }),
        Call::Degree(u) => {
            let _ = F::deg_out(n(u));
            CallRet::Returned
        }
        Call::InDegree(u) => {
            let _ = F::deg_in(n(u));
            CallRet::Returned
        }
        Call::IsOrphan(u) => {
            let _ = F::is_orphan(n(u));
            CallRet::Returned
        }
        Call::IsConnected(u, v) => {
            let _ = F::is_connected(n(u), v);
            CallRet::Returned
        }
        Call::Find(u, v) => {
            let _ = F::find_out(n(u), v);
            CallRet::Returned
        }
        Call::Collect(u) => {
            let _ = F::edges_out(n(u));
            CallRet::Returned
        }
        Call::CollectIn(u) => {
            let _ = F::edges_in(n(u));
            CallRet::Returned
        }
        Call::Bfs(u, t) => {
            let cfg = Cfg { kind: Kind::Bfs, transpose: false, target: Some(t), meth: Meth::None, res: ResK::Search, alt: false, tt: false };
            let _ = F::search(n(u), &cfg, &mut |_| true);
            CallRet::Returned
        }
        Call::DfsPfs(u, t) => {
            for kind in [Kind::Dfs, Kind::PfsMin] {
                let cfg = Cfg { kind, transpose: false, target: Some(t), meth: Meth::None, res: ResK::Path, alt: false, tt: false };
                let _ = F::search(n(u), &cfg, &mut |_| true);
            }
            CallRet::Returned
        }
        Call::Orders(u) => {
            for kind in [Kind::Pre, Kind::Post] {
                let cfg = Cfg { kind, transpose: false, target: None, meth: Meth::None, res: ResK::Nodes, alt: false, tt: false };
                let _ = F::search(n(u), &cfg, &mut |_| true);
            }
            let cfg = Cfg { kind: Kind::Dfs, transpose: false, target: None, meth: Meth::None, res: ResK::Cycle, alt: false, tt: false };
            let _ = F::search(n(u), &cfg, &mut |_| true);
            CallRet::Returned
        }
        Call::Preds(u, v) => {
            let _ = F::is_root(n(u));
            let _ = F::is_leaf(n(u));
            let _ = F::find_in(n(u), v);
            let _ = F::sizeof(n(u));
            let _ = F::edges_into_iter(n(u));
            let _ = F::node_cmp(n(u), n(v));
            CallRet::Returned
        }
        Call::Trans(u, t) => {
            let tr = F::DIRECTED;
            for (kind, res) in [(Kind::Bfs, ResK::Path), (Kind::Dfs, ResK::Search), (Kind::PfsMax, ResK::Path), (Kind::PfsMin, ResK::Search)] {
                let cfg = Cfg { kind, transpose: tr, target: Some(t), meth: Meth::None, res, alt: false, tt: false };
                let _ = F::search(n(u), &cfg, &mut |_| true);
            }
            for (kind, res) in [(Kind::Pre, ResK::Nodes), (Kind::Post, ResK::Edges)] {
                let cfg = Cfg { kind, transpose: tr, target: None, meth: Meth::None, res, alt: false, tt: false };
                let _ = F::search(n(u), &cfg, &mut |_| true);
            }
            for (kind, transpose) in [(Kind::Bfs, false), (Kind::PfsMax, tr)] {
                let cfg = Cfg { kind, transpose, target: None, meth: Meth::None, res: ResK::Cycle, alt: false, tt: false };
                let _ = F::search(n(u), &cfg, &mut |_| true);
            }
            CallRet::Returned
        }
        Call::LoopQ(u) => {
            let me = n(u).clone();
            for which in 0..=4u8 {
                let _ = F::edge_loop(n(u), which, 64, &mut |e| {
                    let (s, t, _) = F::edge_parts(e);
                    let _ = F::deg_out(&s);
                    let _ = F::deg_out(&t);
                    let _ = F::deg_in(&t);
                    let _ = F::is_connected(&t, F::key(&s));
                    let _ = F::find_out(&me, F::key(&t));
                    let _ = F::is_orphan(&me);
                });
            }
            CallRet::Returned
        }
        Call::TravQ(u) => {
            for kind in crate::flavor::ALL_KINDS {
                for meth in [Meth::ForEach, Meth::Filter] {
                    for transpose in [false, true] {
                        if transpose && !F::DIRECTED {
                            continue;
                        }
                        let res = if kind.is_order() { ResK::Nodes } else { ResK::Path };
                        let cfg = Cfg { kind, transpose, target: None, meth, res, alt: false, tt: false };
                        let mut budget = 256usize;
                        let _ = F::search(n(u), &cfg, &mut |e| {
                            if budget == 0 {
                                panic!("traversal closure called more than 256 times: the traversal does not terminate");
                            }
                            budget -= 1;
                            let (s, t, _) = F::edge_parts(e);
                            let _ = F::deg_out(&s);
                            let _ = F::deg_out(&t);
                            let _ = F::is_connected(&s, F::key(&t));
                            let _ = F::find_out(&t, F::key(&s));
                            true
                        });
                    }
                }
            }
            CallRet::Returned
        }
        Call::Views => {
            // the container's iteration order decides the order of lock acquisitions
            gdsl::verif::set_hash_seed(Some(7));
            let mut g = F::g_new();
            for nd in nodes {
                F::g_insert(&mut g, nd.clone());
            }
            let _ = F::g_roots(&g);
            let _ = F::g_leaves(&g);
            let _ = F::g_orphans(&g);
            let _ = F::g_scc(&g);
            let _ = F::g_to_dot(&g);
            let _ = F::g_to_json(&g);
            let _ = F::g_to_cbor(&g);
            CallRet::Returned
        }
    }
}

// ---------------------------------------------------------------------------
// The scheduler
// ---------------------------------------------------------------------------

#[derive(Clone, Copy, Debug, PartialEq, Eq)]
enum TStatus {
    NotStarted,
    Running,
    AtPoint(usize, Mode),
    Done,
}

#[derive(Default)]
struct Holders {
    writer: Option<usize>,
    readers: Vec<usize>,
}

struct State {
    status: Vec<TStatus>,
    grant: Option<usize>,
    start: Option<usize>,
    holders: HashMap<usize, Holders>,
    abort: bool,
    lock_points: u64,
}

struct Shared {
    st: Mutex<State>,
    cv: Condvar,
}

struct SchedHook {
    sh: Arc<Shared>,
    tid: usize,
}

impl LockHook for SchedHook {
    fn before_acquire(&self, lock: usize, mode: Mode) {
        if std::thread::panicking() {
            return;
        }
        let mut st = self.sh.st.lock().unwrap();
        st.status[self.tid] = TStatus::AtPoint(lock, mode);
        st.lock_points += 1;
        self.sh.cv.notify_all();
        while st.grant != Some(self.tid) && !st.abort {
            st = self.sh.cv.wait(st).unwrap();
        }
        if st.abort {
            drop(st);
            panic!("{}", ABORT_MARK);
        }
        st.grant = None;
        st.status[self.tid] = TStatus::Running;
    }
    fn acquired(&self, lock: usize, mode: Mode) {
        let mut st = self.sh.st.lock().unwrap();
        let h = st.holders.entry(lock).or_default();
        match mode {
            Mode::Write => h.writer = Some(self.tid),
            Mode::Read => h.readers.push(self.tid),
        }
    }
    fn released(&self, lock: usize, mode: Mode) {
        let mut st = self.sh.st.lock().unwrap();
        if let Some(h) = st.holders.get_mut(&lock) {
            match mode {
                Mode::Write => {
                    if h.writer == Some(self.tid) {
                        h.writer = None;
                    }
                }
                Mode::Read => {
                    if let Some(i) = h.readers.iter().position(|t| *t == self.tid) {
                        h.readers.remove(i);
                    }
                }
            }
        }
    }
}

#[derive(Clone, Debug, Serialize, Deserialize)]
pub struct ChoicePoint {
    pub ncand: usize,
    pub chosen: usize,
    /// the previously running thread was still enabled (choosing another one is a preemption)
    pub last_enabled: bool,
}

#[derive(Clone, Debug, PartialEq, Eq, Serialize, Deserialize)]
pub enum Outcome {
    Completed,
    /// no thread can proceed; `policy` = only under std's writer-preferring RwLock
    Deadlock { policy: bool, waiting: Vec<String> },
    Diverged(String),
}

pub struct Execution {
    pub points: Vec<ChoicePoint>,
    pub outcome: Outcome,
    pub rets: Vec<Vec<CallRet>>,
    pub final_obs: Result<WorldObs, Fail>,
    pub lock_points: u64,
}

fn enabled_sets(st: &State) -> (Vec<usize>, Vec<usize>) {
    let mut perm = Vec::new();
    let mut strict = Vec::new();
    for (tid, s) in st.status.iter().enumerate() {
        if let TStatus::AtPoint(lock, mode) = *s {
            let h = st.holders.get(&lock);
            let (w, r) = match h {
                Some(h) => (h.writer, h.readers.as_slice()),
                None => (None, &[][..]),
            };
            let ok = match mode {
                Mode::Write => w.is_none() && r.is_empty(),
                Mode::Read => w.is_none(),
            };
            if ok {
                perm.push(tid);
                // std's futex RwLock does not admit a reader while a writer is
                // queued: a read of a lock that is currently held is blocked
                // once another thread waits to write it.
                let held = w.is_some() || !r.is_empty();
                let writer_pending = st.status.iter().enumerate().any(|(t2, s2)| t2 != tid && *s2 == TStatus::AtPoint(lock, Mode::Write));
                if !(mode == Mode::Read && held && writer_pending) {
                    strict.push(tid);
                }
            }
        }
    }
    (perm, strict)
}

/// Run one schedule: follow `prefix` (indices into the canonical candidate
/// list at each choice point), then always take candidate 0.
pub fn run_schedule<F: Fl>(sc: &Scenario, prefix: &[usize]) -> Execution
where
    F::Node: Send + Sync + 'static,
{
    let nodes: Vec<F::Node> = alloc_nodes::<F>(sc.n, &sc.addr_order);
    for (u, v, e) in &sc.init {
        F::connect(&nodes[*u as usize], &nodes[*v as usize], *e);
    }
    let nt = sc.threads.len();
    let sh = Arc::new(Shared {
        st: Mutex::new(State {
            status: vec![TStatus::NotStarted; nt],
            grant: None,
            start: None,
            holders: HashMap::new(),
            abort: false,
            lock_points: 0,
        }),
        cv: Condvar::new(),
    });
    let rets: Arc<Mutex<Vec<Vec<CallRet>>>> = Arc::new(Mutex::new(sc.threads.iter().map(|t| vec![CallRet::NotRun; t.len()]).collect()));
    let mut handles = Vec::new();
    for tid in 0..nt {
        let sh2 = sh.clone();
        let calls = sc.threads[tid].clone();
        let my_nodes: Vec<F::Node> = nodes.clone();
        let rets2 = rets.clone();
        handles.push(
            std::thread::Builder::new()
                .stack_size(256 * 1024)
                .spawn(move || {
                    // wait for the start signal
                    {
                        let mut st = sh2.st.lock().unwrap();
                        while st.start != Some(tid) && !st.abort {
                            st = sh2.cv.wait(st).unwrap();
                        }
                        st.start = None;
                        st.status[tid] = TStatus::Running;
                    }
                    let hook: Rc<dyn LockHook> = Rc::new(SchedHook { sh: sh2.clone(), tid });
                    gdsl::verif::set_lock_hook(Some(hook));
                    for (i, c) in calls.iter().enumerate() {
                        let _ = take_last_panic();
                        let r = catch_unwind(AssertUnwindSafe(|| do_call::<F>(&my_nodes, c)));
                        let cr = match r {
                            Ok(cr) => cr,
                            Err(_) => CallRet::Panicked(take_last_panic().unwrap_or_default()),
                        };
                        let stop = matches!(cr, CallRet::Panicked(_));
                        rets2.lock().unwrap()[tid][i] = cr;
                        if stop {
                            break;
                        }
                    }
                    gdsl::verif::set_lock_hook(None);
                    drop(my_nodes);
                    let mut st = sh2.st.lock().unwrap();
                    st.status[tid] = TStatus::Done;
                    sh2.cv.notify_all();
                })
                .expect("spawn"),
        );
    }

    let mut points: Vec<ChoicePoint> = Vec::new();
    let mut outcome = Outcome::Completed;
    let mut last: Option<usize> = None;
    {
        let mut st = sh.st.lock().unwrap();
        // run every thread up to its first lock point (code before it is thread-local)
        for tid in 0..nt {
            st.start = Some(tid);
            sh.cv.notify_all();
            while matches!(st.status[tid], TStatus::NotStarted | TStatus::Running) {
                st = sh.cv.wait(st).unwrap();
            }
        }
        loop {
            while st.status.iter().any(|s| *s == TStatus::Running) || st.grant.is_some() {
                st = sh.cv.wait(st).unwrap();
            }
            if st.status.iter().all(|s| *s == TStatus::Done) {
                break;
            }
            let (perm, strict) = enabled_sets(&st);
            if strict.is_empty() {
                let waiting: Vec<String> = st
                    .status
                    .iter()
                    .enumerate()
                    .filter_map(|(t, s)| match s {
                        TStatus::AtPoint(_, m) => Some(format!("T{} waits for {:?}", t, m)),
                        _ => None,
                    })
                    .collect();
                outcome = Outcome::Deadlock { policy: !perm.is_empty(), waiting };
                st.abort = true;
                sh.cv.notify_all();
                break;
            }
            // canonical candidate order: the thread that ran last first, then ascending ids
            let mut cand = perm.clone();
            let last_enabled = last.map_or(false, |l| cand.contains(&l));
            if last_enabled {
                let l = last.unwrap();
                cand.retain(|t| *t != l);
                cand.insert(0, l);
            }
            let step = points.len();
            let idx = if step < prefix.len() { prefix[step] } else { 0 };
            if idx >= cand.len() {
                outcome = Outcome::Diverged(format!("choice {} at step {} but only {} candidates", idx, step, cand.len()));
                st.abort = true;
                sh.cv.notify_all();
                break;
            }
            points.push(ChoicePoint { ncand: cand.len(), chosen: idx, last_enabled });
            let t = cand[idx];
            last = Some(t);
            st.grant = Some(t);
            sh.cv.notify_all();
        }
    }
    for h in handles {
        let _ = h.join();
    }
    let lock_points = sh.st.lock().unwrap().lock_points;
    let rets = rets.lock().unwrap().clone();
    let final_obs = if outcome == Outcome::Completed {
        let w = World::<F> { nodes };
        w.observe()
    } else {
        Err(Fail::Panic("aborted".into()))
    };
    Execution { points, outcome, rets, final_obs, lock_points }
}

/// Allocate nodes 0..n such that their allocation addresses are ordered as
/// `order` demands (keys from lowest to highest address). Addresses are
/// observed through the identity of each node's lock.
pub fn alloc_nodes<F: Fl>(n: usize, order: &[K]) -> Vec<F::Node> {
    let fresh = |k: K| F::node(k, Val::new(default_val(k)));
    if order.is_empty() {
        return (0..n).map(|k| fresh(k as K)).collect();
    }
    let mon = ensure_monitor();
    let addr = |nd: &F::Node| {
        let _ = F::deg_out(nd);
        mon.last_lock.get()
    };
    let mut graveyard: Vec<F::Node> = Vec::new();
    for _attempt in 0..200 {
        // allocators tend to hand out increasing addresses: allocate in the requested order
        let mut cand: Vec<Option<F::Node>> = (0..n).map(|_| None).collect();
        for k in order {
            cand[*k as usize] = Some(fresh(*k));
        }
        let cand: Vec<F::Node> = cand.into_iter().map(|c| c.expect("order names every node")).collect();
        let mut by_addr: Vec<K> = (0..n as K).collect();
        by_addr.sort_by_key(|k| addr(&cand[*k as usize]));
        if by_addr == order {
            return cand;
        }
        graveyard.extend(cand);
    }
    panic!("{}: could not obtain address order {:?}", HARNESS_MARK, order);
}

fn permutations(n: usize) -> Vec<Vec<K>> {
    fn rec(rest: &mut Vec<K>, cur: &mut Vec<K>, out: &mut Vec<Vec<K>>) {
        if rest.is_empty() {
            out.push(cur.clone());
            return;
        }
        for i in 0..rest.len() {
            let x = rest.remove(i);
            cur.push(x);
            rec(rest, cur, out);
            cur.pop();
            rest.insert(i, x);
        }
    }
    let mut out = Vec::new();
    rec(&mut (0..n as K).collect(), &mut Vec::new(), &mut out);
    out
}

// ---------------------------------------------------------------------------
// Sequential references
// ---------------------------------------------------------------------------

pub type SeqOutcome = (Vec<Vec<CallRet>>, WorldObs);

fn merges(lens: &[usize]) -> Vec<Vec<usize>> {
    // all interleavings of whole calls respecting per-thread order: sequences of thread ids
    fn rec(rem: &mut Vec<usize>, cur: &mut Vec<usize>, out: &mut Vec<Vec<usize>>) {
        if rem.iter().all(|r| *r == 0) {
            out.push(cur.clone());
            return;
        }
        for t in 0..rem.len() {
            if rem[t] > 0 {
                rem[t] -= 1;
                cur.push(t);
                rec(rem, cur, out);
                cur.pop();
                rem[t] += 1;
            }
        }
    }
    let mut out = Vec::new();
    rec(&mut lens.to_vec(), &mut Vec::new(), &mut out);
    out
}

/// Outcomes of all sequential orders that run without failing.
pub fn sequential_refs<F: Fl>(sc: &Scenario) -> (Vec<SeqOutcome>, usize) {
    let mut refs = Vec::new();
    let mut failed = 0;
    for order in merges(&sc.threads.iter().map(|t| t.len()).collect::<Vec<_>>()) {
        let w = World::<F>::new(sc.n);
        for (u, v, e) in &sc.init {
            F::connect(&w.nodes[*u as usize], &w.nodes[*v as usize], *e);
        }
        let mut rets: Vec<Vec<CallRet>> = sc.threads.iter().map(|_| Vec::new()).collect();
        let mut next = vec![0usize; sc.threads.len()];
        let mut ok = true;
        for t in order {
            let c = &sc.threads[t][next[t]];
            next[t] += 1;
            match guarded(|| do_call::<F>(&w.nodes, c)) {
                Ok(r) => rets[t].push(r),
                Err(_) => {
                    ok = false;
                    break;
                }
            }
        }
        if ok {
            if let Ok(o) = w.observe() {
                refs.push((rets, o));
            } else {
                ok = false;
            }
        }
        if !ok {
            failed += 1;
        }
    }
    (refs, failed)
}

fn strip_sizeof(o: &WorldObs) -> WorldObs {
    o.iter().map(|n| NodeObs { out: n.out.clone(), inn: n.inn.clone(), sizeof: 0 }).collect()
}

/// Judge one execution. Ok(signature) or Err((kind, detail)).
pub fn judge<F: Fl>(sc: &Scenario, ex: &Execution, refs: &[SeqOutcome]) -> Result<String, (String, String)> {
    match &ex.outcome {
        Outcome::Deadlock { policy, waiting } => {
            return Err((
                if *policy { "rr-deadlock".into() } else { "deadlock".into() },
                format!(
                    "no thread can proceed{}: {}",
                    if *policy { " once the pending writer has queued (std::sync::RwLock blocks new readers while a writer waits)" } else { "" },
                    waiting.join(", ")
                ),
            ));
        }
        Outcome::Diverged(d) => {
            hassert!(false, "schedule diverged: {}", d);
        }
        Outcome::Completed => {}
    }
    for (t, rs) in ex.rets.iter().enumerate() {
        for (i, r) in rs.iter().enumerate() {
            if let CallRet::Panicked(m) = r {
                let kind = if m.contains("PoisonError") || m.contains("poisoned") { "poisoned" } else { "panic" };
                return Err((kind.into(), format!("T{} call {} ({}) panicked: {}", t, i, sc.threads[t][i].show(), m)));
            }
        }
    }
    let obs = match &ex.final_obs {
        Ok(o) => o,
        Err(f) => return Err(("poisoned".into(), format!("the final state cannot be read: {}", f.msg()))),
    };
    let inv = if F::DIRECTED { check_mirror(obs) } else { check_symmetry(obs) };
    if let Err((code, d)) = inv {
        return Err(("invariant".into(), format!("at quiescence: {} ({})", d, code)));
    }
    if !refs.is_empty() {
        let mine = (mut_rets(&ex.rets, sc), strip_sizeof(obs));
        let ok = refs.iter().any(|(r, o)| mut_rets(r, sc) == mine.0 && strip_sizeof(o) == mine.1);
        if !ok {
            return Err((
                "nonserialisable".into(),
                format!(
                    "final state {:?} with returns {:?} matches none of the {} sequential orders: {:?}",
                    mine.1,
                    mine.0,
                    refs.len(),
                    refs.iter().map(|(r, o)| (mut_rets(r, sc), strip_sizeof(o))).collect::<Vec<_>>()
                ),
            ));
        }
    }
    Ok(format!("{:?}|{:?}", mut_rets(&ex.rets, sc), strip_sizeof(obs)))
}

/// Return values of the mutating calls only.
fn mut_rets(r: &[Vec<CallRet>], sc: &Scenario) -> Vec<Vec<CallRet>> {
    r.iter()
        .enumerate()
        .map(|(t, rs)| rs.iter().enumerate().filter(|(i, _)| sc.threads[t][*i].is_mut()).map(|(_, x)| x.clone()).collect())
        .collect()
}

// ---------------------------------------------------------------------------
// Exploration of one scenario
// ---------------------------------------------------------------------------

pub struct ScenarioResult {
    pub executions: u64,
    pub lock_points: u64,
    pub max_preemptions: usize,
    pub capped: bool,
    pub outcomes: BTreeSet<String>,
    /// first failing execution of each kind: (kind, detail, schedule)
    pub failures: BTreeMap<String, (String, Vec<usize>)>,
}

pub fn explore_scenario<F: Fl>(sc: &Scenario, bound: Option<usize>, max_exec: u64) -> ScenarioResult
where
    F::Node: Send + Sync + 'static,
{
    let (refs, _failed) = sequential_refs::<F>(sc);
    let mut res = ScenarioResult { executions: 0, lock_points: 0, max_preemptions: 0, capped: false, outcomes: BTreeSet::new(), failures: BTreeMap::new() };
    let mut stack: Vec<Vec<usize>> = vec![vec![]];
    while let Some(prefix) = stack.pop() {
        if res.executions >= max_exec {
            res.capped = true;
            break;
        }
        crate::progress::tick();
        let ex = run_schedule::<F>(sc, &prefix);
        res.executions += 1;
        res.lock_points += ex.lock_points;
        let pre_total: usize = ex.points.iter().filter(|p| p.last_enabled && p.chosen != 0).count();
        res.max_preemptions = res.max_preemptions.max(pre_total);
        match judge::<F>(sc, &ex, &refs) {
            Ok(sig) => {
                res.outcomes.insert(sig);
            }
            Err((kind, detail)) => {
                let schedule: Vec<usize> = ex.points.iter().map(|p| p.chosen).collect();
                res.outcomes.insert(format!("FAIL:{}", kind));
                res.failures.entry(kind).or_insert((detail, schedule));
            }
        }
        // children: alternatives at every point after the prefix
        let mut pre = 0usize;
        let mut alts: Vec<Vec<usize>> = Vec::new();
        for (i, p) in ex.points.iter().enumerate() {
            if i >= prefix.len() {
                for alt in 1..p.ncand {
                    let cost = pre + if p.last_enabled { 1 } else { 0 };
                    if bound.map_or(true, |b| cost <= b) {
                        let mut np: Vec<usize> = ex.points[..i].iter().map(|q| q.chosen).collect();
                        np.push(alt);
                        alts.push(np);
                    }
                }
            }
            if p.last_enabled && p.chosen != 0 {
                pre += 1;
            }
        }
        // depth-first, smallest deviation first
        for a in alts.into_iter().rev() {
            stack.push(a);
        }
    }
    res
}

// ---------------------------------------------------------------------------
// Scenario enumeration
// ---------------------------------------------------------------------------

pub fn mutators(n: usize, e: E) -> Vec<Call> {
    let mut v = Vec::new();
    let n = n as K;
    for u in 0..n {
        for w in 0..n {
            v.push(Call::Mut(Op::Connect(u, w, e)));
        }
    }
    for u in 0..n {
        for w in 0..n {
            v.push(Call::Mut(Op::TryConnect(u, w, e)));
        }
    }
    for u in 0..n {
        for w in 0..n {
            v.push(Call::Mut(Op::Disconnect(u, w)));
        }
    }
    for u in 0..n {
        v.push(Call::Mut(Op::Isolate(u)));
    }
    v
}

pub fn queries(n: usize, directed: bool) -> Vec<Call> {
    let mut v = Vec::new();
    let n = n as K;
    for u in 0..n {
        v.push(Call::Degree(u));
        if directed {
            v.push(Call::InDegree(u));
        }
        v.push(Call::IsOrphan(u));
        v.push(Call::Collect(u));
        v.push(Call::Orders(u));
        if directed {
            v.push(Call::CollectIn(u));
        }
        for w in 0..n {
            v.push(Call::IsConnected(u, w));
            v.push(Call::Find(u, w));
            if u != w {
                v.push(Call::Bfs(u, w));
                v.push(Call::DfsPfs(u, w));
            }
        }
    }
    v
}

/// Second query family: predicates, transposed / max-first / cycle searches,
/// edge loops and traversals whose body / closure itself queries the nodes
/// (so a guard kept across the callback meets a second acquisition), and the
/// read-only container views.
pub fn queries2(n: usize) -> Vec<Call> {
    let mut v = Vec::new();
    let n = n as K;
    for u in 0..n {
        v.push(Call::LoopQ(u));
        v.push(Call::TravQ(u));
        for w in 0..n {
            if u != w {
                v.push(Call::Preds(u, w));
                v.push(Call::Trans(u, w));
            }
        }
    }
    v.push(Call::Views);
    v
}

pub fn init_lists(n: usize, max_edges: usize) -> Vec<Vec<Arc3>> {
    let mut out: Vec<Vec<Arc3>> = vec![vec![]];
    let mut frontier: Vec<Vec<Arc3>> = vec![vec![]];
    for l in 0..max_edges {
        let mut nx = Vec::new();
        for base in &frontier {
            for u in 0..n as K {
                for v in 0..n as K {
                    let mut b = base.clone();
                    b.push((u, v, (l + 1) as E));
                    nx.push(b);
                }
            }
        }
        out.extend(nx.iter().cloned());
        frontier = nx;
    }
    out
}

#[derive(Serialize, Deserialize, Clone, Debug)]
pub struct SParams {
    pub n: usize,
    pub init_edges: usize,
    /// "2x1", "2x2m" (mutators only), "3x1m"
    pub shape: String,
    pub bound: Option<usize>,
    pub max_exec: u64,
    #[serde(default)]
    pub open_pairs: Vec<String>,
}

/// Hubs: node 0 with an edge to each of k = n-1 neighbours; `isolate(0)` (which
/// locks the node and all its neighbours) against one call of another thread
/// that touches the hub or a neighbour. Only the ascending and the descending
/// address order (n! is out of reach). A lock budget, a batch size, a
/// neighbour-set threshold in `isolate` only show with many neighbours.
fn hub_scenarios(p: &SParams, directed: bool) -> Vec<Scenario> {
    let n = p.n;
    let k = (n - 1) as K;
    let init: Vec<Arc3> = (1..=k).map(|i| (0, i, i as E)).collect();
    let mut picks: Vec<K> = vec![1, k / 2 + 1, k];
    picks.dedup();
    let mut others: Vec<Call> = Vec::new();
    for j in picks {
        others.extend([
            Call::Mut(Op::TryConnect(0, j, 100)),
            Call::Mut(Op::Connect(0, j, 100)),
            Call::Mut(Op::Disconnect(0, j)),
            Call::Mut(Op::TryConnect(j, 0, 100)),
            Call::Mut(Op::Connect(j, 0, 100)),
            Call::Mut(Op::Isolate(j)),
            Call::IsConnected(0, j),
            Call::Collect(j),
        ]);
        if directed {
            others.push(Call::CollectIn(j));
        }
    }
    others.extend([Call::Degree(0), Call::Collect(0), Call::Orders(0)]);
    let asc: Vec<K> = (0..n as K).collect();
    let desc: Vec<K> = asc.iter().rev().cloned().collect();
    let mut out = Vec::new();
    for b in others {
        for ao in [&asc, &desc] {
            out.push(Scenario { n, init: init.clone(), addr_order: ao.clone(), threads: vec![vec![Call::Mut(Op::Isolate(0))], vec![b]] });
        }
    }
    out
}

pub fn scenarios(p: &SParams, directed: bool) -> Vec<Scenario> {
    if p.shape == "hubiso" {
        return hub_scenarios(p, directed);
    }
    let mut out = Vec::new();
    let m0 = mutators(p.n, 10);
    let m1 = mutators(p.n, 11);
    let m2 = mutators(p.n, 12);
    let q = queries(p.n, directed);
    let q2 = queries2(p.n);
    for init in init_lists(p.n, p.init_edges) {
        match p.shape.as_str() {
            "2x1" => {
                // unordered pairs with at least one mutator
                for (i, a) in m0.iter().enumerate() {
                    for b in m1.iter().skip(i) {
                        out.push(Scenario { n: p.n, init: init.clone(), addr_order: vec![], threads: vec![vec![*a], vec![*b]] });
                    }
                    for b in &q {
                        out.push(Scenario { n: p.n, init: init.clone(), addr_order: vec![], threads: vec![vec![*a], vec![*b]] });
                    }
                }
            }
            "2x2m" => {
                for (i, a1) in m0.iter().enumerate() {
                    for a2 in m0.iter() {
                        for (j, b1) in m1.iter().enumerate() {
                            for b2 in m1.iter() {
                                // thread renaming: keep (a1,a2) <= (b1,b2) by index
                                let ia2 = m0.iter().position(|x| x == a2).unwrap();
                                let jb2 = m1.iter().position(|x| x == b2).unwrap();
                                if (i, ia2) <= (j, jb2) {
                                    out.push(Scenario { n: p.n, init: init.clone(), addr_order: vec![], threads: vec![vec![*a1, *a2], vec![*b1, *b2]] });
                                }
                            }
                        }
                    }
                }
            }
            "3x1m" => {
                for (i, a) in m0.iter().enumerate() {
                    for (j, b) in m1.iter().enumerate().skip(i) {
                        for c in m2.iter().skip(j) {
                            out.push(Scenario { n: p.n, init: init.clone(), addr_order: vec![], threads: vec![vec![*a], vec![*b], vec![*c]] });
                        }
                    }
                }
            }
            "2x1q2" => {
                // one mutator against two queries in sequence
                for a in &m0 {
                    for b1 in &q {
                        for b2 in &q {
                            out.push(Scenario { n: p.n, init: init.clone(), addr_order: vec![], threads: vec![vec![*a], vec![*b1, *b2]] });
                        }
                    }
                }
            }
            "iso12" => {
                // isolate (the only operation with a snapshot-then-lock protocol)
                // against two consecutive mutations that touch the isolated node
                let touching: Vec<Call> = m1.iter().filter(|c| c.nodes().contains(&0)).cloned().collect();
                for b1 in &touching {
                    for b2 in &touching {
                        out.push(Scenario { n: p.n, init: init.clone(), addr_order: vec![], threads: vec![vec![Call::Mut(Op::Isolate(0))], vec![*b1, *b2]] });
                    }
                }
            }
            "12m" => {
                for a in &m0 {
                    for b1 in &m1 {
                        for b2 in &m1 {
                            out.push(Scenario { n: p.n, init: init.clone(), addr_order: vec![], threads: vec![vec![*a], vec![*b1, *b2]] });
                        }
                    }
                }
            }
            "2x1i" => {
                // isolate (locks the node and all its neighbours) against every other single call
                for u in 0..p.n as K {
                    let a = Call::Mut(Op::Isolate(u));
                    for b in m1.iter().chain(q.iter()) {
                        out.push(Scenario { n: p.n, init: init.clone(), addr_order: vec![], threads: vec![vec![a], vec![*b]] });
                    }
                }
            }
            "2x1b" => {
                // every mutator against every call of the second query family
                for a in &m0 {
                    for b in &q2 {
                        out.push(Scenario { n: p.n, init: init.clone(), addr_order: vec![], threads: vec![vec![*a], vec![*b]] });
                    }
                }
            }
            "q2m2" => {
                // second query family against two consecutive mutations
                for a in &q2 {
                    for b1 in &m0 {
                        for b2 in &m1 {
                            out.push(Scenario { n: p.n, init: init.clone(), addr_order: vec![], threads: vec![vec![*a], vec![*b1, *b2]] });
                        }
                    }
                }
            }
            "q1m2" => {
                // one query / traversal against two consecutive mutations
                for a in &q {
                    for b1 in &m0 {
                        for b2 in &m1 {
                            out.push(Scenario { n: p.n, init: init.clone(), addr_order: vec![], threads: vec![vec![*a], vec![*b1, *b2]] });
                        }
                    }
                }
            }
            other => panic!("GDSL_MC_HARNESS: unknown scenario shape {}", other),
        }
    }
    // every allocation-address order of the nodes
    let perms = permutations(p.n);
    let mut all = Vec::with_capacity(out.len() * perms.len());
    for sc in out {
        for pm in &perms {
            let mut s2 = sc.clone();
            s2.addr_order = pm.clone();
            // scenarios equal up to renaming of the nodes are generated once
            if (p.shape == "12m" || p.shape == "q1m2" || p.shape == "q2m2" || (p.shape == "2x1b" && p.n >= 3)) && !is_canonical(&s2) {
                continue;
            }
            all.push(s2);
        }
    }
    all
}

fn rename_call(c: &Call, m: &[K]) -> Call {
    let r = |k: K| m[k as usize];
    match *c {
        Call::Mut(Op::Connect(u, v, e)) => Call::Mut(Op::Connect(r(u), r(v), e)),
        Call::Mut(Op::TryConnect(u, v, e)) => Call::Mut(Op::TryConnect(r(u), r(v), e)),
        Call::Mut(Op::Disconnect(u, v)) => Call::Mut(Op::Disconnect(r(u), r(v))),
        Call::Mut(Op::Isolate(u)) => Call::Mut(Op::Isolate(r(u))),
        Call::Degree(u) => Call::Degree(r(u)),
        Call::InDegree(u) => Call::InDegree(r(u)),
        Call::IsOrphan(u) => Call::IsOrphan(r(u)),
        Call::IsConnected(u, v) => Call::IsConnected(r(u), r(v)),
        Call::Find(u, v) => Call::Find(r(u), r(v)),
        Call::Collect(u) => Call::Collect(r(u)),
        Call::CollectIn(u) => Call::CollectIn(r(u)),
        Call::Bfs(u, v) => Call::Bfs(r(u), r(v)),
        Call::DfsPfs(u, v) => Call::DfsPfs(r(u), r(v)),
        Call::Orders(u) => Call::Orders(r(u)),
        Call::Preds(u, v) => Call::Preds(r(u), r(v)),
        Call::Trans(u, v) => Call::Trans(r(u), r(v)),
        Call::LoopQ(u) => Call::LoopQ(r(u)),
        Call::TravQ(u) => Call::TravQ(r(u)),
        Call::Views => Call::Views,
    }
}

/// Is the scenario the smallest among its images under all node renamings?
fn is_canonical(sc: &Scenario) -> bool {
    let key = |init: &Vec<Arc3>, th: &Vec<Vec<Call>>, ao: &Vec<K>| format!("{:?}|{:?}|{:?}", th, init, ao);
    let mine = key(&sc.init, &sc.threads, &sc.addr_order);
    for m in permutations(sc.n) {
        let init: Vec<Arc3> = sc.init.iter().map(|(u, v, e)| (m[*u as usize], m[*v as usize], *e)).collect();
        let th: Vec<Vec<Call>> = sc.threads.iter().map(|t| t.iter().map(|c| rename_call(c, &m)).collect()).collect();
        let ao: Vec<K> = sc.addr_order.iter().map(|k| m[*k as usize]).collect();
        if key(&init, &th, &ao) < mine {
            return false;
        }
    }
    true
}

fn has_open_pair(sc: &Scenario, open: &[String]) -> bool {
    for i in 0..sc.threads.len() {
        for j in (i + 1)..sc.threads.len() {
            for a in &sc.threads[i] {
                for b in &sc.threads[j] {
                    if open.contains(&canonical_pair(a, b)) {
                        return true;
                    }
                }
            }
        }
    }
    false
}

pub fn class_of(sc: &Scenario, kind: &str) -> String {
    if sc.threads.len() == 2 && sc.threads.iter().all(|t| t.len() == 1) {
        format!("{}/{}", kind, canonical_pair(&sc.threads[0][0], &sc.threads[1][0]))
    } else {
        format!("{}/larger:{}", kind, sc.canonical_calls())
    }
}

pub fn sweep<F: Fl>(job: &Job, out: &mut Out)
where
    F::Node: Send + Sync + 'static,
{
    let p: SParams = serde_json::from_value(job.params.clone()).expect("sched params");
    let prop = job.property.as_str();
    let all = scenarios(&p, F::DIRECTED);
    out.stats.max("scenarios_total", all.len() as u64);
    let pairwise = p.shape == "2x1";
    for (i, sc) in all.iter().enumerate() {
        if i % job.nshards != job.shard {
            continue;
        }
        if !pairwise && has_open_pair(sc, &p.open_pairs) {
            out.stats.inc("scenarios_skipped_open_known_pair");
            continue;
        }
        crate::progress::set_case(|| json!({"kind":"sched-scenario","flavour":F::NAME,"scenario":sc}).to_string());
        let r = explore_scenario::<F>(sc, p.bound, p.max_exec);
        out.stats.inc("scenarios");
        out.stats.add("evaluations", r.executions);
        out.stats.add("states", r.lock_points);
        out.stats.add("transitions", r.lock_points);
        out.stats.add("schedules", r.executions);
        out.stats.max("max_preemptions_in_an_execution", r.max_preemptions as u64);
        out.stats.max("max_schedules_of_a_scenario", r.executions);
        if r.capped {
            out.stats.inc("scenarios_capped");
            if out.stats.caps_hit.is_empty() {
                out.stats.caps_hit.push(format!("execution cap {} hit for some scenarios; those are covered up to the cap only", p.max_exec));
            }
        }
        if r.outcomes.len() >= 2 {
            out.stats.inc("nontrivial");
            out.stats.inc("scenarios_with_several_outcomes");
        }
        for o in &r.outcomes {
            if out.stats.outcomes.len() < 2000 {
                out.stats.outcome(o.clone());
            }
        }
        if r.outcomes.len() >= 2 && out.stats.samples.len() < 3 {
            out.stats.sample(json!({"scenario": sc.show(), "schedules": r.executions, "distinct_outcomes": r.outcomes.len()}));
        }
        for (kind, (detail, schedule)) in &r.failures {
            out.report(Violation {
                property: prop.into(),
                engine: "sched".into(),
                flavour: F::NAME.into(),
                class: class_of(sc, kind),
                what: format!("{}; schedule {:?}: {}", sc.show(), schedule, detail),
                case: json!({"kind":"sched","flavour":F::NAME,"scenario":sc,"schedule":schedule,"program":sc.show()}),
                order: (sc.init.len() * 10 + sc.threads.iter().map(|t| t.len()).sum::<usize>() * 100 + schedule.len()) as u64,
            });
        }
    }
}

pub fn replay<F: Fl>(prop: &str, case: &Value) -> Vec<Violation>
where
    F::Node: Send + Sync + 'static,
{
    let mut out = Out::new();
    let sc: Scenario = serde_json::from_value(case["scenario"].clone()).expect("scenario");
    if case["kind"] == "sched-scenario" {
        let r = explore_scenario::<F>(&sc, Some(2), 200_000);
        for (kind, (detail, schedule)) in &r.failures {
            out.report(Violation { property: prop.into(), engine: "sched".into(), flavour: F::NAME.into(), class: class_of(&sc, kind), what: format!("schedule {:?}: {}", schedule, detail), case: case.clone(), order: 0 });
        }
        return out.viols.into_values().collect();
    }
    let schedule: Vec<usize> = serde_json::from_value(case["schedule"].clone()).expect("schedule");
    println!("  scenario: {}", sc.show());
    println!("  schedule: {:?} (index into [last-running thread first, then ascending ids] at each lock point)", schedule);
    let (refs, failed) = sequential_refs::<F>(&sc);
    println!("  sequential orders: {} usable, {} failing", refs.len(), failed);
    let ex = run_schedule::<F>(&sc, &schedule);
    println!("  outcome : {:?}; returns {:?}; final {:?}", ex.outcome, ex.rets, ex.final_obs);
    if let Err((kind, detail)) = judge::<F>(&sc, &ex, &refs) {
        out.report(Violation { property: prop.into(), engine: "sched".into(), flavour: F::NAME.into(), class: class_of(&sc, &kind), what: detail, case: case.clone(), order: 0 });
    }
    out.viols.into_values().collect()
}
