//! Reference graph model and reference algorithms used as oracles by the
//! sweeps (plain vectors, brute force). Everything here works on "reported
//! arcs": an arc (a, b, e) means the traversal moves from a to b along a stored
//! edge with value e (directed: stored a->b; transposed: stored b->a;
//! undirected: stored between a and b in either orientation).

use crate::flavor::*;
use crate::model::Bad;
use std::collections::{BTreeMap, BTreeSet, HashMap, VecDeque};

fn bad<T>(code: &str, detail: String) -> Result<T, Bad> {
    Err((code.to_string(), detail))
}

#[derive(Clone, Debug)]
pub struct GModel {
    pub n: usize,
    pub directed: bool,
    /// stored edges in connect order; values are unique labels 1..=L
    pub edges: Vec<Arc3>,
    pub vals: Vec<i8>,
}

pub type Adj = Vec<Vec<Arc3>>;

impl GModel {
    pub fn new(n: usize, directed: bool, conns: &[(K, K)], vals: &[i8]) -> GModel {
        GModel {
            n,
            directed,
            edges: conns
                .iter()
                .enumerate()
                .map(|(i, (u, v))| (*u, *v, (i + 1) as E))
                .collect(),
            vals: vals.to_vec(),
        }
    }

    /// Arcs leaving each node in the traversal direction (all of them, the
    /// filter not applied), as the library must report them.
    pub fn leaving(&self, transposed: bool) -> Adj {
        let mut adj: Adj = vec![Vec::new(); self.n];
        for &(u, v, e) in &self.edges {
            if self.directed {
                if transposed {
                    adj[v as usize].push((v, u, e));
                } else {
                    adj[u as usize].push((u, v, e));
                }
            } else {
                adj[u as usize].push((u, v, e));
                adj[v as usize].push((v, u, e));
            }
        }
        adj
    }

    /// Distinct reported arc triples (the domain of edge predicates).
    pub fn distinct_arcs(&self, transposed: bool) -> Vec<Arc3> {
        let mut s = BTreeSet::new();
        for l in self.leaving(transposed) {
            for a in l {
                s.insert(a);
            }
        }
        s.into_iter().collect()
    }
}

pub fn accepted(adj: &Adj, reject: &[Arc3]) -> Adj {
    adj.iter()
        .map(|l| l.iter().filter(|a| !reject.contains(a)).cloned().collect())
        .collect()
}

pub fn reach(adj: &Adj, r: usize) -> Vec<bool> {
    let mut seen = vec![false; adj.len()];
    let mut st = vec![r];
    seen[r] = true;
    while let Some(x) = st.pop() {
        for a in &adj[x] {
            if !seen[a.1 as usize] {
                seen[a.1 as usize] = true;
                st.push(a.1 as usize);
            }
        }
    }
    seen
}

pub fn dist(adj: &Adj, r: usize) -> Vec<Option<usize>> {
    let mut d = vec![None; adj.len()];
    let mut q = VecDeque::new();
    d[r] = Some(0);
    q.push_back(r);
    while let Some(x) = q.pop_front() {
        for a in &adj[x] {
            let y = a.1 as usize;
            if d[y].is_none() {
                d[y] = Some(d[x].unwrap() + 1);
                q.push_back(y);
            }
        }
    }
    d
}

/// Length of a shortest closed path of >= 1 accepted arcs from r back to r.
pub fn shortest_cycle(adj: &Adj, r: usize) -> Option<usize> {
    let mut best: Option<usize> = None;
    for a in &adj[r] {
        let x = a.1 as usize;
        let c = if x == r { Some(1) } else { dist(adj, x)[r].map(|d| d + 1) };
        if let Some(c) = c {
            if best.map_or(true, |b| c < b) {
                best = Some(c);
            }
        }
    }
    best
}

// ---------------------------------------------------------------------------
// Path validation
// ---------------------------------------------------------------------------

/// The different views a Path offers must all describe the same edge sequence.
pub fn path_views_consistent(po: &PathObs) -> Result<(), Bad> {
    let e = &po.edges;
    if po.len != e.len() + 1 {
        return bad("path-len", format!("len()={} for {} edges", po.len, e.len()));
    }
    let mut nodes = Vec::new();
    if let Some(f) = e.first() {
        nodes.push(f.0);
    }
    for a in e {
        nodes.push(a.1);
    }
    if po.iter_nodes != nodes {
        return bad("path-iter_nodes", format!("iter_nodes {:?} for edges {:?}", po.iter_nodes, e));
    }
    if po.to_vec_nodes != nodes {
        return bad("path-to_vec_nodes", format!("to_vec_nodes {:?} for edges {:?}", po.to_vec_nodes, e));
    }
    if &po.iter_edges != e || &po.to_vec_edges != e || &po.indexed != e {
        return bad(
            "path-edge-views",
            format!("edges {:?}, iter_edges {:?}, to_vec_edges {:?}, indexed {:?}", e, po.iter_edges, po.to_vec_edges, po.indexed),
        );
    }
    if po.first_edge != e.first().cloned() || po.last_edge != e.last().cloned() {
        return bad("path-first-last-edge", format!("first {:?} last {:?} for {:?}", po.first_edge, po.last_edge, e));
    }
    if po.last_node != e.last().map(|a| a.1) {
        return bad("path-last_node", format!("last_node {:?} for {:?}", po.last_node, e));
    }
    Ok(())
}

/// Path from r to t made of arcs of `all` (existing, with stored value),
/// joined end to start. `acc` = accepted arcs; a rejected arc is reported
/// separately from a non-existing one.
pub fn path_valid(po: &PathObs, r: usize, t: usize, all: &Adj, acc: &Adj, vals: &[i8]) -> Result<(), Bad> {
    path_views_consistent(po)?;
    let e = &po.edges;
    if e.is_empty() {
        return bad("path-empty", "returned an empty path".into());
    }
    if e[0].0 as usize != r {
        return bad("path-start", format!("path {:?} does not start at the root n{}", e, r));
    }
    if e.last().unwrap().1 as usize != t {
        return bad("path-end", format!("path {:?} does not end at n{}", e, t));
    }
    for i in 0..e.len() {
        let a = e[i];
        if i > 0 && e[i - 1].1 != a.0 {
            return bad("path-not-joined", format!("path {:?}: edge {} does not start where edge {} ends", e, i, i - 1));
        }
        let x = a.0 as usize;
        if x >= all.len() || !all[x].contains(&a) {
            return bad("path-nonexistent-edge", format!("path {:?}: {:?} is not an edge of the graph (in this direction / with this value)", e, a));
        }
        if !acc[x].contains(&a) {
            return bad("path-rejected-edge", format!("path {:?} uses {:?}, which the filter rejects", e, a));
        }
    }
    let exp_vals: Vec<i8> = po.iter_nodes.iter().map(|k| vals[*k as usize]).collect();
    if po.node_vals != exp_vals {
        return bad("path-node-values", format!("nodes of the path carry values {:?}, expected {:?}", po.node_vals, exp_vals));
    }
    Ok(())
}

pub fn path_simple(po: &PathObs) -> Result<(), Bad> {
    let mut seen = BTreeSet::new();
    for k in &po.iter_nodes {
        if !seen.insert(*k) {
            return bad("path-repeats-node", format!("path visits n{} twice: {:?}", k, po.iter_nodes));
        }
    }
    Ok(())
}

/// Directed cycle through r: valid closed path, no arc twice, no intermediate
/// node twice (r only at both ends).
pub fn cycle_simple(po: &PathObs, r: usize) -> Result<(), Bad> {
    let e = &po.edges;
    let mut arcs = BTreeSet::new();
    for a in e {
        if !arcs.insert(*a) {
            return bad("cycle-edge-repeated", format!("cycle {:?} uses {:?} twice", e, a));
        }
    }
    let mut seen = BTreeSet::new();
    for a in &e[..e.len() - 1] {
        let k = a.1;
        if k as usize == r {
            return bad("cycle-passes-root-twice", format!("cycle {:?} passes the root in the middle", e));
        }
        if !seen.insert(k) {
            return bad("cycle-node-repeated", format!("cycle {:?} visits n{} twice", e, k));
        }
    }
    Ok(())
}

// ---------------------------------------------------------------------------
// All depth-first orders (exact decision procedure for C10)
// ---------------------------------------------------------------------------

/// (discovery sequences, finishing sequences, enumeration complete?)
pub type OrderSets = (BTreeSet<Vec<K>>, BTreeSet<Vec<K>>, bool);

#[derive(Default)]
pub struct DfsOrders {
    cache: HashMap<(Vec<u64>, usize), OrderSets>,
}

/// Upper bound on the number of steps of one enumeration; beyond it the sets
/// are incomplete (flag false) and callers must fall back to necessary conditions.
const DFS_ENUM_CAP: u64 = 400_000;

impl DfsOrders {
    /// (set of discovery sequences, set of finishing sequences) of all
    /// depth-first traversals of `adj` from r (up to 64 nodes).
    pub fn get(&mut self, adj: &Adj, r: usize) -> &OrderSets {
        let n = adj.len();
        let masks: Vec<u64> = (0..n)
            .map(|x| adj[x].iter().fold(0u64, |m, a| m | (1u64 << a.1)))
            .collect();
        let key = (masks.clone(), r);
        self.cache.entry(key).or_insert_with(|| {
            let mut pre = BTreeSet::new();
            let mut post = BTreeSet::new();
            let mut stack = vec![r];
            let mut visited = 1u64 << r;
            let mut pre_seq = vec![r as K];
            let mut post_seq = Vec::new();
            let mut steps = 0u64;
            #[allow(clippy::too_many_arguments)]
            fn rec(
                masks: &[u64],
                stack: &mut Vec<usize>,
                visited: &mut u64,
                pre_seq: &mut Vec<K>,
                post_seq: &mut Vec<K>,
                pre: &mut BTreeSet<Vec<K>>,
                post: &mut BTreeSet<Vec<K>>,
                steps: &mut u64,
            ) {
                *steps += 1;
                if *steps > DFS_ENUM_CAP {
                    return;
                }
                let top = match stack.last() {
                    Some(t) => *t,
                    None => {
                        pre.insert(pre_seq.clone());
                        post.insert(post_seq.clone());
                        return;
                    }
                };
                let cand = masks[top] & !*visited;
                if cand == 0 {
                    stack.pop();
                    post_seq.push(top as K);
                    rec(masks, stack, visited, pre_seq, post_seq, pre, post, steps);
                    post_seq.pop();
                    stack.push(top);
                } else {
                    for w in 0..masks.len() {
                        if cand & (1u64 << w) != 0 {
                            *visited |= 1u64 << w;
                            stack.push(w);
                            pre_seq.push(w as K);
                            rec(masks, stack, visited, pre_seq, post_seq, pre, post, steps);
                            pre_seq.pop();
                            stack.pop();
                            *visited &= !(1u64 << w);
                        }
                    }
                }
            }
            rec(&masks, &mut stack, &mut visited, &mut pre_seq, &mut post_seq, &mut pre, &mut post, &mut steps);
            (pre, post, steps <= DFS_ENUM_CAP)
        })
    }
}

// ---------------------------------------------------------------------------
// PFS expansion-order monitor (C06)
// ---------------------------------------------------------------------------

/// `trace` = arcs handed to the closure, in order, each with the filter verdict.
/// `all` = arcs leaving each node (to know which nodes have edges to expand).
pub fn pfs_order_ok(trace: &[(Arc3, bool)], r: usize, all: &Adj, vals: &[i8], max: bool) -> Result<(), Bad> {
    let n = all.len();
    let mut discovered = vec![false; n];
    let mut expanded = vec![false; n];
    discovered[r] = true;
    let mut cur: Option<usize> = None;
    for (_i, (a, ok)) in trace.iter().enumerate() {
        let x = a.0 as usize;
        if cur != Some(x) {
            // a new expansion starts
            for y in 0..n {
                if y != x && discovered[y] && !expanded[y] && !all[y].is_empty() {
                    let better = if max { vals[y] > vals[x] } else { vals[y] < vals[x] };
                    if better {
                        return bad(
                            "pfs-priority-order",
                            format!(
                                "expansion of n{} (value {}) starts while n{} (value {}) is discovered and unexpanded; {} mode; callbacks {:?}",
                                x, vals[x], y, vals[y], if max { "max" } else { "min" }, trace
                            ),
                        );
                    }
                }
            }
            expanded[x] = true;
            cur = Some(x);
        }
        if *ok {
            discovered[a.1 as usize] = true;
        }
    }
    Ok(())
}

/// Multiset comparison helper.
pub fn multiset(v: &[Arc3]) -> BTreeMap<Arc3, usize> {
    let mut m = BTreeMap::new();
    for a in v {
        *m.entry(*a).or_insert(0) += 1;
    }
    m
}
