//! Container sweeps: scc() (C11) and serialisation round trips (C12) over
//! every canonical shape x every container iteration order (enumerated through
//! the hash-seed hook).

use crate::core::*;
use crate::flavor::*;
use crate::gsweep::shapes;
use crate::model::{check_mirror, check_symmetry, Bad};
use crate::refmodel::*;
use crate::report::*;
use crate::seqx::Out;
use serde::{Deserialize, Serialize};
use serde_json::{json, Value};
use std::collections::{BTreeMap, BTreeSet};

fn bad<T>(code: &str, detail: String) -> Result<T, Bad> {
    Err((code.to_string(), detail))
}

pub fn set_seed(s: Option<u64>) {
    gdsl::verif::set_hash_seed(s);
}

/// Build a container holding nodes 0..n inserted in the given order.
pub fn container<F: Fl>(w: &World<F>, order: &[K], seed: u64) -> F::Graph {
    set_seed(Some(seed));
    let mut g = F::g_new();
    set_seed(None);
    for k in order {
        let ok = F::g_insert(&mut g, w.nodes[*k as usize].clone());
        hassert!(ok, "insert of a fresh key refused");
    }
    // non-initial container states (job parameter `churn`, see gsweep::build_world):
    // the same member set reached through removals and re-insertions
    match crate::gsweep::churn() {
        1 => {
            // every member removed and inserted again, one after the other
            for k in order {
                if let Some(n) = F::g_remove(&mut g, *k) {
                    F::g_insert(&mut g, n);
                }
            }
        }
        2 => {
            // all members removed, then all inserted again
            let taken: Vec<F::Node> = order.iter().filter_map(|k| F::g_remove(&mut g, *k)).collect();
            for n in taken {
                F::g_insert(&mut g, n);
            }
        }
        3 => {
            // the first member removed and inserted again twice
            if let Some(k) = order.first() {
                for _ in 0..2 {
                    if let Some(n) = F::g_remove(&mut g, *k) {
                        F::g_insert(&mut g, n);
                    }
                }
            }
        }
        _ => {}
    }
    g
}

pub fn iteration_order<F: Fl>(g: &F::Graph) -> Vec<K> {
    F::g_iter(g).iter().map(|(k, _)| *k).collect()
}

fn factorial(n: usize) -> usize {
    (1..=n).product()
}

/// First seed producing each distinct iteration order of keys 0..n inserted in
/// `order`. Scans seeds 0.. until all n! orders were seen or the cap is hit.
pub fn seed_table<F: Fl>(n: usize, order: &[K], cap: u64) -> Vec<(u64, Vec<K>)> {
    let w = World::<F>::new(n);
    let mut seen: BTreeMap<Vec<K>, u64> = BTreeMap::new();
    let mut seed = 0u64;
    while seen.len() < factorial(n) && seed < cap {
        let g = container::<F>(&w, order, seed);
        let o = iteration_order::<F>(&g);
        seen.entry(o).or_insert(seed);
        seed += 1;
    }
    let mut v: Vec<(u64, Vec<K>)> = seen.into_iter().map(|(o, s)| (s, o)).collect();
    v.sort();
    v
}

#[derive(Serialize, Deserialize, Clone, Debug)]
pub struct CCase {
    pub n: usize,
    pub conns: Vec<(K, K)>,
    pub insertion: Vec<K>,
    pub seed: u64,
    #[serde(default)]
    pub seed2: u64,
    #[serde(default)]
    pub fmt: String,
    /// edge operations applied to the member nodes after the container has
    /// been used once (scc() / serialised); the container is then used again
    #[serde(default)]
    pub then: Vec<Op>,
}

impl CCase {
    pub fn program(&self, flavour: &str) -> String {
        let mut s = format!("{}: ", flavour);
        for (i, (u, v)) in self.conns.iter().enumerate() {
            s += &format!("n{}.connect(&n{}, {}); ", u, v, i + 1);
        }
        s += &format!("graph with nodes inserted in order {:?}, hash seed {}", self.insertion, self.seed);
        if !self.fmt.is_empty() {
            s += &format!("; {} round trip (new graph: seed {})", self.fmt, self.seed2);
        }
        if !self.then.is_empty() {
            s += &format!("; then {} and the same container is used again", show_history(&self.then));
        }
        s
    }
}

fn vals_of(n: usize) -> Vec<i8> {
    (0..n).map(|k| default_val(k as K)).collect()
}

/// Reference strongly connected components (mutual reachability).
pub fn ref_scc(m: &GModel) -> BTreeSet<BTreeSet<K>> {
    let adj = m.leaving(false);
    let r: Vec<Vec<bool>> = (0..m.n).map(|x| reach(&adj, x)).collect();
    let mut out = BTreeSet::new();
    for x in 0..m.n {
        let c: BTreeSet<K> = (0..m.n).filter(|y| r[x][*y] && r[*y][x]).map(|y| y as K).collect();
        out.insert(c);
    }
    out
}

pub fn check_scc<F: Fl>(c: &CCase) -> Result<String, (String, String)> {
    let vals = vals_of(c.n);
    let m = GModel::new(c.n, true, &c.conns, &vals);
    let w = crate::gsweep::build_world::<F>(&vals, &c.conns);
    let g = container::<F>(&w, &c.insertion, c.seed);
    let order = iteration_order::<F>(&g);
    let res = match guarded(|| F::g_scc(&g).expect("directed flavour")) {
        Ok(r) => r,
        Err(f) => return Err((format!("scc/{}", f.kind()), format!("{}: scc() did not return: {}", c.program(F::NAME), f.msg()))),
    };
    let blocks: Vec<Vec<K>> = res.iter().map(|b| b.iter().map(F::key).collect()).collect();
    // a second call on the same container must give the same partition, and
    // neither call may change the graph
    let pre = crate::gsweep::build_world::<F>(&vals, &c.conns).observe_raw();
    match guarded(|| F::g_scc(&g).expect("directed flavour")) {
        Ok(r2) => {
            let p1: BTreeSet<BTreeSet<K>> = blocks.iter().map(|b| b.iter().cloned().collect()).collect();
            let p2: BTreeSet<BTreeSet<K>> = r2.iter().map(|b| b.iter().map(F::key).collect()).collect();
            if p1 != p2 {
                return Err(("scc/second-call-differs".into(), format!("{}: first scc() = {:?}, second scc() on the same graph = {:?}", c.program(F::NAME), p1, p2)));
            }
        }
        Err(f) => return Err((format!("scc/second-call-{}", f.kind()), format!("{}: second scc() did not return: {}", c.program(F::NAME), f.msg()))),
    }
    if w.observe_raw() != pre {
        return Err(("scc/mutated-graph".into(), format!("{}: adjacency after scc() {:?}, before {:?}", c.program(F::NAME), w.observe_raw(), pre)));
    }
    let exp = ref_scc(&m);
    let mut seen = BTreeSet::new();
    let detail = |what: &str| format!("{} (iteration order {:?}): scc() = {:?}; {}; strongly connected components are {:?}", c.program(F::NAME), order, blocks, what, exp);
    for b in &blocks {
        if b.is_empty() {
            return Err(("scc/empty-component".into(), detail("an empty component")));
        }
        for k in b {
            if !seen.insert(*k) {
                return Err(("scc/node-in-two-components".into(), detail(&format!("n{} appears twice", k))));
            }
        }
    }
    if seen.len() != c.n {
        return Err(("scc/node-missing".into(), detail("not every member appears")));
    }
    let got: BTreeSet<BTreeSet<K>> = blocks.iter().map(|b| b.iter().cloned().collect()).collect();
    if got != exp {
        let split = got.iter().any(|b| exp.iter().any(|e| b.is_subset(e) && b != e));
        let code = if split { "scc/component-split" } else { "scc/components-merged" };
        return Err((code.into(), detail("the partition differs")));
    }
    // the same nodes held by further containers: another container with all
    // members (other hash seed, reversed insertion order) and one with the
    // weakly connected component of n0 only (closed under neighbours, as the
    // property requires); scc() on each, then on the first one again
    {
        let rev: Vec<K> = c.insertion.iter().rev().cloned().collect();
        let g2 = container::<F>(&w, &rev, c.seed.wrapping_add(17));
        let mut comp: BTreeSet<K> = BTreeSet::new();
        comp.insert(0);
        loop {
            let before = comp.len();
            for (u, v) in &c.conns {
                if comp.contains(u) || comp.contains(v) {
                    comp.insert(*u);
                    comp.insert(*v);
                }
            }
            if comp.len() == before {
                break;
            }
        }
        let comp_order: Vec<K> = c.insertion.iter().filter(|k| comp.contains(k)).cloned().collect();
        let g3 = container::<F>(&w, &comp_order, c.seed.wrapping_add(5));
        let exp3: BTreeSet<BTreeSet<K>> = exp.iter().filter(|b| b.iter().all(|k| comp.contains(k))).cloned().collect();
        for (label, gx, ex, members) in [("a second container holding the same nodes", &g2, &exp, c.n), ("a container holding only the nodes connected with n0", &g3, &exp3, comp.len()), ("the first container again", &g, &exp, c.n)] {
            let r = match guarded(|| F::g_scc(gx).expect("directed flavour")) {
                Ok(r) => r,
                Err(f) => return Err((format!("scc-shared-nodes/{}", f.kind()), format!("{}: scc() on {} did not return: {}", c.program(F::NAME), label, f.msg()))),
            };
            let gotx: BTreeSet<BTreeSet<K>> = r.iter().map(|b| b.iter().map(F::key).collect()).collect();
            let total: usize = r.iter().map(|b| b.len()).sum();
            if gotx != *ex || total != members {
                return Err(("scc-shared-nodes/partition".into(), format!("{}: after scc() on the first container, scc() on {} = {:?}; its strongly connected components are {:?}", c.program(F::NAME), label, r.iter().map(|b| b.iter().map(F::key).collect::<Vec<K>>()).collect::<Vec<_>>(), ex)));
            }
        }
    }
    if !c.then.is_empty() {
        // the edges change through the node handles, the container is the same object
        for op in &c.then {
            if let Ret::Fail(f) = w.apply(op) {
                return Err((format!("scc-after-mutation/{}-{}", op.name(), f.kind()), format!("{}: {} did not return: {}", c.program(F::NAME), op.show(), f.msg())));
            }
        }
        let now = w.observe_raw();
        let conns2: Vec<(K, K)> = now.iter().flat_map(|o| o.out.iter().map(|a| (a.0, a.1))).collect();
        let m2 = GModel::new(c.n, true, &conns2, &vals);
        let exp2 = ref_scc(&m2);
        let res2 = match guarded(|| F::g_scc(&g).expect("directed flavour")) {
            Ok(r) => r,
            Err(f) => return Err((format!("scc-after-mutation/{}", f.kind()), format!("{}: scc() did not return: {}", c.program(F::NAME), f.msg()))),
        };
        let got2: BTreeSet<BTreeSet<K>> = res2.iter().map(|b| b.iter().map(F::key).collect()).collect();
        let total: usize = res2.iter().map(|b| b.len()).sum();
        if got2 != exp2 || total != c.n {
            return Err(("scc-after-mutation/partition".into(), format!("{}: scc() after the mutation = {:?}; strongly connected components of the graph as it is now {:?} are {:?}", c.program(F::NAME), res2.iter().map(|b| b.iter().map(F::key).collect::<Vec<K>>()).collect::<Vec<_>>(), conns2, exp2)));
        }
    }
    Ok(format!("{:?}", got))
}

/// Edge operations to apply between two uses of one container: every single
/// connect, disconnect and isolate, and every move of one edge (disconnect
/// one, connect another: the number of edges stays the same).
pub fn mutations(n: usize, conns: &[(K, K)]) -> Vec<Vec<Op>> {
    let mut out: Vec<Vec<Op>> = Vec::new();
    let e = (conns.len() + 1) as E;
    let mut pairs: Vec<(K, K)> = conns.to_vec();
    pairs.sort();
    pairs.dedup();
    for u in 0..n as K {
        out.push(vec![Op::Isolate(u)]);
        for v in 0..n as K {
            out.push(vec![Op::Connect(u, v, e)]);
        }
    }
    // try_connect: accepted on a free pair, refused on a used one (a refused call must leave nothing behind,
    // which a later disconnect of that edge would expose)
    for u in 0..n as K {
        for v in 0..n as K {
            out.push(vec![Op::TryConnect(u, v, e)]);
            if pairs.contains(&(u, v)) {
                out.push(vec![Op::TryConnect(u, v, e), Op::Disconnect(u, v)]);
            }
        }
    }
    for (a, b) in &pairs {
        out.push(vec![Op::Disconnect(*a, *b)]);
        for u in 0..n as K {
            for v in 0..n as K {
                if (u, v) != (*a, *b) {
                    out.push(vec![Op::Disconnect(*a, *b), Op::Connect(u, v, e)]);
                    out.push(vec![Op::Connect(u, v, e), Op::Disconnect(*a, *b)]);
                }
            }
        }
    }
    out
}

fn incident<F: Fl>(n: &F::Node) -> Vec<Arc3> {
    F::edges_out(n).iter().map(|e| F::edge_accessors(e)).collect()
}

/// The graph is serialised and read back twice (the second time from the
/// same, already serialised container): both round trips must be faithful.
pub fn check_roundtrip<F: Fl>(c: &CCase) -> Result<String, (String, String)> {
    let vals = vals_of(c.n);
    let w = crate::gsweep::build_world::<F>(&vals, &c.conns);
    let g = container::<F>(&w, &c.insertion, c.seed);
    let first = roundtrip_once::<F>(c, &w, &g)?;
    roundtrip_once::<F>(c, &w, &g).map_err(|(code, d)| (code, format!("second serialisation of the same graph: {}", d)))?;
    if !c.then.is_empty() {
        for op in &c.then {
            if let Ret::Fail(f) = w.apply(op) {
                return Err((format!("serde-after-mutation/{}-{}", op.name(), f.kind()), format!("{}: {} did not return: {}", c.program(F::NAME), op.show(), f.msg())));
            }
        }
        roundtrip_once::<F>(c, &w, &g).map_err(|(code, d)| (code.replacen("serde/", "serde-after-mutation/", 1), format!("serialisation after the mutation: {}", d)))?;
    }
    Ok(first)
}

fn roundtrip_once<F: Fl>(c: &CCase, w: &World<F>, g: &F::Graph) -> Result<String, (String, String)> {
    let fail = |code: &str, d: String| Err((format!("serde/{}", code), format!("{}: {}", c.program(F::NAME), d)));
    set_seed(Some(c.seed2));
    let pre = w.observe_raw();
    let g2 = guarded(|| -> Result<(F::Graph, String), String> {
        if c.fmt == "json" {
            let s = F::g_to_json(&g)?;
            Ok((F::g_from_json(&s)?, s))
        } else if c.fmt == "cbor" {
            let b = F::g_to_cbor(&g)?;
            let txt = format!("{:?}", b);
            Ok((F::g_from_cbor(&b)?, txt))
        } else {
            F::g_roundtrip_fmt(&g, &c.fmt)
        }
    });
    set_seed(None);
    if w.observe_raw() != pre {
        return fail("serialisation-mutated-graph", format!("adjacency after serialising {:?}, before {:?}", w.observe_raw(), pre));
    }
    let (g2, doc) = match g2 {
        Ok(Ok(x)) => x,
        Ok(Err(e)) => return fail("error", format!("round trip failed: {}", e)),
        Err(f) => return fail(f.kind(), format!("round trip did not return: {}", f.msg())),
    };
    let r = guarded(|| -> Result<(), Bad> {
        if F::g_len(&g2) != c.n {
            return bad("node-count", format!("{} nodes after the round trip, {} before", F::g_len(&g2), c.n));
        }
        let mut obs2: WorldObs = Vec::new();
        for k in 0..c.n as K {
            let a = &w.nodes[k as usize];
            let b = match F::g_get(&g2, k) {
                Some(b) => b,
                None => return bad("node-lost", format!("n{} is missing after the round trip", k)),
            };
            if F::pval(&b) != F::pval(a) {
                return bad("node-value", format!("n{} has value {} after the round trip, {} before", k, F::pval(&b), F::pval(a)));
            }
            let ea = incident::<F>(a);
            let eb = incident::<F>(&b);
            if F::DIRECTED {
                if ea != eb {
                    let code = if ea.len() != eb.len() {
                        if eb.len() > ea.len() { "edges-duplicated" } else { "edges-lost" }
                    } else if multiset(&ea) == multiset(&eb) {
                        "edge-order"
                    } else {
                        "edge-values"
                    };
                    return bad(code, format!("n{} outgoing edges before {:?}, after {:?}", k, ea, eb));
                }
            } else if multiset(&ea) != multiset(&eb) {
                let code = if eb.len() > ea.len() { "edges-duplicated" } else if eb.len() < ea.len() { "edges-lost" } else { "edge-values" };
                return bad(code, format!("n{} incident edges before {:?}, after {:?}", k, ea, eb));
            }
            obs2.push(NodeObs {
                out: eb,
                inn: F::edges_in(&b).iter().map(|e| F::edge_accessors(e)).collect(),
                sizeof: 0,
            });
        }
        if F::DIRECTED {
            check_mirror(&obs2).map_err(|(c, d)| (format!("result-{}", c), d))?;
        } else {
            check_symmetry(&obs2).map_err(|(c, d)| (format!("result-{}", c), d))?;
        }
        Ok(())
    });
    match r {
        Ok(Ok(())) => Ok(doc),
        Ok(Err((code, d))) => fail(&code, format!("{} [document: {}]", d, doc)),
        Err(f) => fail(f.kind(), f.msg().to_string()),
    }
}

#[derive(Serialize, Deserialize, Clone, Debug)]
pub struct CParams {
    pub n: usize,
    pub max_l: usize,
    /// > 0: the large structured families instead of the small shapes (a few
    /// fixed hash seeds; iteration orders are not enumerable at that size)
    #[serde(default)]
    pub large: usize,
    /// also use every container a second time after every single edge
    /// operation / edge move applied through the node handles
    /// > 0: the hub families (every degree 1..=hubs at one node of 4) instead
    #[serde(default)]
    pub hubs: usize,
    #[serde(default)]
    pub mutate: bool,
    /// the other encodings / entry points of serde_json and serde_cbor
    /// (packed, self-described, reader / writer, Value) instead of the main sweep
    #[serde(default)]
    pub formats: bool,
}

pub const MORE_FORMATS: [&str; 8] = ["flat", "cbor-packed", "cbor-selfdesc", "cbor-reader", "cbor-value", "json-value", "json-pretty-reader", "json-bytes"];

pub fn sweep<F: Fl>(job: &Job, out: &mut Out) {
    let p: CParams = serde_json::from_value(job.params.clone()).expect("csweep params");
    let prop = job.property.as_str();
    if p.formats {
        // the flat format must itself be sound: a plain tuple of vectors goes through it unchanged
        {
            let v: (Vec<(u8, i8)>, Vec<(u8, u8, i8)>, Option<String>) = (vec![(1, -2), (3, 4)], vec![(1, 3, 5)], Some("x".into()));
            let t = crate::flatfmt::to_tokens(&v).expect("flat: serialise");
            let back: (Vec<(u8, i8)>, Vec<(u8, u8, i8)>, Option<String>) = crate::flatfmt::from_tokens(&t).expect("flat: deserialise");
            hassert!(back == v, "flat format does not round-trip a plain tuple");
        }
        // every other entry point / encoding of the two serde implementations,
        // one hash seed and insertion order per shape
        let all_shapes = if p.large > 0 { crate::gsweep::large_graphs(p.large).into_iter().map(|(_, n, c)| (n, c)).collect::<Vec<_>>() } else { shapes::<F>(p.n, p.max_l).into_iter().map(|c| (p.n, c)).collect() };
        for (si, (n, conns)) in all_shapes.iter().enumerate() {
            if si % job.nshards != job.shard {
                continue;
            }
            out.stats.inc("shapes");
            crate::progress::set_case(|| json!({"kind":"csweep-shape","flavour":F::NAME,"n":n,"conns":conns}).to_string());
            for fmt in MORE_FORMATS {
                crate::progress::tick();
                let c = CCase { n: *n, conns: conns.clone(), insertion: (0..*n as K).collect(), seed: 3, seed2: 24, fmt: fmt.to_string(), then: vec![] };
                out.stats.inc("evaluations");
                out.stats.inc("other_formats");
                if !conns.is_empty() {
                    out.stats.inc("nontrivial");
                }
                if let Err((class, what)) = check_roundtrip::<F>(&c) {
                    out.report(Violation { property: prop.into(), engine: "csweep".into(), flavour: F::NAME.into(), class, what: what.chars().take(700).collect(), case: json!({"kind":"csweep","flavour":F::NAME,"case":c,"program":c.program(F::NAME)}), order: (conns.len() * 100 + n + 70) as u64 });
                }
            }
        }
        return;
    }
    if p.large > 0 || p.hubs > 0 {
        let graphs = if p.hubs > 0 { crate::gsweep::hub_graphs(p.hubs) } else { crate::gsweep::large_graphs(p.large) };
        for (gi, (name, n, conns)) in graphs.iter().enumerate() {
            if gi % job.nshards != job.shard {
                continue;
            }
            crate::progress::set_case(|| json!({"kind":"csweep-shape","flavour":F::NAME,"n":n,"conns":conns,"name":name}).to_string());
            out.stats.inc("shapes");
            let ins: Vec<K> = (0..*n as K).collect();
            for seed in [0u64, 1, 2] {
                let fmts: &[&str] = if prop == "C12" { &["json", "cbor"] } else { &[""] };
                for fmt in fmts {
                    crate::progress::tick();
                    let c = CCase { n: *n, conns: conns.clone(), insertion: ins.clone(), seed, seed2: seed + 11, fmt: fmt.to_string(), then: vec![] };
                    out.stats.inc("evaluations");
                    out.stats.inc("nontrivial");
                    out.stats.max("max_nodes", *n as u64);
                    let r = if prop == "C11" { check_scc::<F>(&c) } else { check_roundtrip::<F>(&c) };
                    if let Err((class, what)) = r {
                        out.report(Violation { property: prop.into(), engine: "csweep".into(), flavour: F::NAME.into(), class, what: what.chars().take(600).collect(), case: json!({"kind":"csweep","flavour":F::NAME,"case":c,"program":c.program(F::NAME)}), order: (conns.len() * 100 + n) as u64 });
                    }
                }
            }
        }
        return;
    }
    let all_shapes = shapes::<F>(p.n, p.max_l);
    let asc: Vec<K> = (0..p.n as K).collect();
    let desc: Vec<K> = asc.iter().rev().cloned().collect();
    let insertions = if p.n > 1 { vec![asc.clone(), desc] } else { vec![asc.clone()] };
    let tables: Vec<Vec<(u64, Vec<K>)>> = insertions.iter().map(|o| seed_table::<F>(p.n, o, 4096)).collect();
    for t in &tables {
        out.stats.max("iteration_orders_covered", t.len() as u64);
        if t.len() < factorial(p.n) {
            out.stats.caps_hit.push(format!("only {} of {} iteration orders of {} keys found within 4096 seeds", t.len(), factorial(p.n), p.n));
        }
    }
    for (si, conns) in all_shapes.iter().enumerate() {
        if si % job.nshards != job.shard {
            continue;
        }
        out.stats.inc("shapes");
        crate::progress::set_case(|| json!({"kind":"csweep-shape","flavour":F::NAME,"n":p.n,"conns":conns}).to_string());
        // the same container used again after the edges changed underneath it
        if p.mutate && crate::gsweep::churn() == 0 {
            let seeds: Vec<u64> = tables[0].iter().map(|(s, _)| *s).take(2).collect();
            for then in mutations(p.n, conns) {
                for seed in &seeds {
                    let fmts: &[&str] = if prop == "C12" { &["json", "cbor"] } else { &[""] };
                    for fmt in fmts {
                        crate::progress::tick();
                        let c = CCase { n: p.n, conns: conns.clone(), insertion: insertions[0].clone(), seed: *seed, seed2: seed.wrapping_mul(7).wrapping_add(3), fmt: fmt.to_string(), then: then.clone() };
                        out.stats.inc("evaluations");
                        out.stats.inc("reuse_after_mutation");
                        out.stats.inc("nontrivial");
                        let r = if prop == "C11" { check_scc::<F>(&c) } else { check_roundtrip::<F>(&c) };
                        if let Err((class, what)) = r {
                            out.report(Violation { property: prop.into(), engine: "csweep".into(), flavour: F::NAME.into(), class, what, case: json!({"kind":"csweep","flavour":F::NAME,"case":c,"program":c.program(F::NAME)}), order: (conns.len() * 100 + p.n + 50) as u64 });
                        }
                    }
                }
            }
        }
        for (ii, ins) in insertions.iter().enumerate() {
            for (seed, _) in &tables[ii] {
                let fmts: &[&str] = if prop == "C12" { &["json", "cbor"] } else { &[""] };
                for fmt in fmts {
                    crate::progress::tick();
                    let c = CCase { n: p.n, conns: conns.clone(), insertion: ins.clone(), seed: *seed, seed2: seed.wrapping_mul(7).wrapping_add(3), fmt: fmt.to_string(), then: vec![] };
                    out.stats.inc("evaluations");
                    let r = if prop == "C11" { check_scc::<F>(&c) } else { check_roundtrip::<F>(&c) };
                    match r {
                        Ok(sig) => {
                            let nontrivial = if prop == "C11" { conns.len() >= 2 } else { !conns.is_empty() };
                            if nontrivial {
                                out.stats.inc("nontrivial");
                            }
                            if out.stats.outcomes.len() < 3000 {
                                out.stats.outcome(sig.clone());
                            }
                            if nontrivial && conns.len() >= 3 && out.stats.samples.len() < 3 {
                                out.stats.sample(json!({"case": c.program(F::NAME), "result": sig}));
                            }
                        }
                        Err((class, what)) => out.report(Violation {
                            property: prop.into(),
                            engine: "csweep".into(),
                            flavour: F::NAME.into(),
                            class,
                            what,
                            case: json!({"kind":"csweep","flavour":F::NAME,"case":c,"program":c.program(F::NAME)}),
                            order: (conns.len() * 100 + p.n) as u64,
                        }),
                    }
                }
            }
        }
    }
}

pub fn replay<F: Fl>(prop: &str, case: &Value) -> Vec<Violation> {
    let mut out = Out::new();
    let c: CCase = match serde_json::from_value(case["case"].clone()) {
        Ok(c) => c,
        Err(_) => {
            // coarse unit: all orders of one shape
            let n = case["n"].as_u64().unwrap() as usize;
            let conns: Vec<(K, K)> = serde_json::from_value(case["conns"].clone()).unwrap();
            let asc: Vec<K> = (0..n as K).collect();
            for (seed, _) in seed_table::<F>(n, &asc, 4096) {
                for fmt in if prop == "C12" { vec!["json", "cbor"] } else { vec![""] } {
                    let c = CCase { n, conns: conns.clone(), insertion: asc.clone(), seed, seed2: seed + 1, fmt: fmt.into(), then: vec![] };
                    let r = if prop == "C11" { check_scc::<F>(&c) } else { check_roundtrip::<F>(&c) };
                    if let Err((class, what)) = r {
                        out.report(Violation { property: prop.into(), engine: "csweep".into(), flavour: F::NAME.into(), class, what, case: case.clone(), order: 0 });
                    }
                }
            }
            return out.viols.into_values().collect();
        }
    };
    println!("  program: {}", c.program(F::NAME));
    let r = if prop == "C11" { check_scc::<F>(&c) } else { check_roundtrip::<F>(&c) };
    match r {
        Ok(sig) => println!("  result : {}", sig),
        Err((class, what)) => out.report(Violation { property: prop.into(), engine: "csweep".into(), flavour: F::NAME.into(), class, what, case: case.clone(), order: 0 }),
    }
    out.viols.into_values().collect()
}
