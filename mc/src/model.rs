//! Oracles derived from the property texts: the mirror / symmetry invariants
//! (C01, C02) and the relational multigraph contract (C03). Deliberately
//! boring: plain vectors, linear scans.

use crate::core::*;
use crate::flavor::*;

/// (short stable code, human detail)
pub type Bad = (String, String);

fn bad<T>(code: &str, detail: String) -> Result<T, Bad> {
    Err((code.to_string(), detail))
}

// ---------------------------------------------------------------------------
// C01: directed mirror invariant on an observation
// ---------------------------------------------------------------------------

pub fn check_mirror(obs: &WorldObs) -> Result<(), Bad> {
    let n = obs.len();
    for u in 0..n {
        // endpoints reported truthfully by the yielding side
        for a in &obs[u].out {
            if a.0 as usize != u || a.1 as usize >= n {
                return bad(
                    "out-edge-wrong-source",
                    format!("n{}.iter_out() yielded {:?}", u, a),
                );
            }
        }
        for a in &obs[u].inn {
            if a.1 as usize != u || a.0 as usize >= n {
                return bad(
                    "in-edge-wrong-target",
                    format!("n{}.iter_in() yielded {:?}", u, a),
                );
            }
        }
    }
    for u in 0..n {
        for v in 0..n {
            let outs: Vec<E> = obs[u]
                .out
                .iter()
                .filter(|a| a.1 as usize == v)
                .map(|a| a.2)
                .collect();
            let ins: Vec<E> = obs[v]
                .inn
                .iter()
                .filter(|a| a.0 as usize == u)
                .map(|a| a.2)
                .collect();
            if outs != ins {
                let code = if outs.len() != ins.len() {
                    "mirror-multiplicity"
                } else {
                    let mut a = outs.clone();
                    let mut b = ins.clone();
                    a.sort();
                    b.sort();
                    if a == b {
                        "mirror-order"
                    } else {
                        "mirror-values"
                    }
                };
                return bad(
                    code,
                    format!(
                        "edges n{}->n{}: source lists values {:?}, target lists {:?}",
                        u, v, outs, ins
                    ),
                );
            }
        }
    }
    Ok(())
}

/// Queries of both endpoints describe the same edge set (directed).
pub fn check_directed_queries<F: Fl>(w: &World<F>, obs: &WorldObs) -> Result<(), Bad> {
    let n = obs.len();
    for u in 0..n {
        let nd = &w.nodes[u];
        let o = &obs[u];
        if F::deg_out(nd) != o.out.len() {
            return bad(
                "out_degree",
                format!("n{}.out_degree()={} but lists {}", u, F::deg_out(nd), o.out.len()),
            );
        }
        if F::deg_in(nd) != Some(o.inn.len()) {
            return bad(
                "in_degree",
                format!("n{}.in_degree()={:?} but lists {}", u, F::deg_in(nd), o.inn.len()),
            );
        }
        if F::is_root(nd) != Some(o.inn.is_empty()) {
            return bad("is_root", format!("n{}.is_root()={:?}", u, F::is_root(nd)));
        }
        if F::is_leaf(nd) != Some(o.out.is_empty()) {
            return bad("is_leaf", format!("n{}.is_leaf()={:?}", u, F::is_leaf(nd)));
        }
        if F::is_orphan(nd) != (o.out.is_empty() && o.inn.is_empty()) {
            return bad("is_orphan", format!("n{}.is_orphan()={}", u, F::is_orphan(nd)));
        }
        let ii: Vec<Arc3> = {
            let a3 = |e: &F::Edge| {
                let (a, b, x) = F::edge_parts(e);
                (F::key(&a), F::key(&b), x)
            };
            F::edges_into_iter(nd).iter().map(a3).collect()
        };
        if ii != o.out {
            return bad(
                "into_iter",
                format!("`for e in &n{}` yields {:?}, iter_out {:?}", u, ii, o.out),
            );
        }
        // keys 0..n plus one key that names no node
        for k in 0..=(n as K) {
            let has_out = o.out.iter().any(|a| a.1 == k);
            let has_in = o.inn.iter().any(|a| a.0 == k);
            if F::is_connected(nd, k) != has_out {
                return bad(
                    "is_connected",
                    format!("n{}.is_connected({})={} but out-list says {}", u, k, !has_out, has_out),
                );
            }
            match F::find_out(nd, k) {
                Some(x) if has_out && F::key(&x) == k => {}
                None if !has_out => {}
                r => {
                    return bad(
                        "find_outbound",
                        format!(
                            "n{}.find_outbound({}) = {:?}, out-list has it: {}",
                            u,
                            k,
                            r.map(|x| F::key(&x)),
                            has_out
                        ),
                    )
                }
            }
            match F::find_in(nd, k).unwrap() {
                Some(x) if has_in && F::key(&x) == k => {}
                None if !has_in => {}
                r => {
                    return bad(
                        "find_inbound",
                        format!(
                            "n{}.find_inbound({}) = {:?}, in-list has it: {}",
                            u,
                            k,
                            r.map(|x| F::key(&x)),
                            has_in
                        ),
                    )
                }
            }
        }
    }
    Ok(())
}

// ---------------------------------------------------------------------------
// C02: undirected symmetry invariant
// ---------------------------------------------------------------------------

pub fn check_symmetry(obs: &WorldObs) -> Result<(), Bad> {
    let n = obs.len();
    for u in 0..n {
        for a in &obs[u].out {
            if a.0 as usize != u || a.1 as usize >= n {
                return bad("edge-wrong-source", format!("n{}.iter() yielded {:?}", u, a));
            }
        }
    }
    for u in 0..n {
        for v in u..n {
            let mut uv: Vec<E> = obs[u]
                .out
                .iter()
                .filter(|a| a.1 as usize == v)
                .map(|a| a.2)
                .collect();
            let mut vu: Vec<E> = obs[v]
                .out
                .iter()
                .filter(|a| a.1 as usize == u)
                .map(|a| a.2)
                .collect();
            uv.sort();
            vu.sort();
            if u == v {
                // a self-loop is listed twice at its node
                let mut i = 0;
                while i < uv.len() {
                    if i + 1 >= uv.len() || uv[i] != uv[i + 1] {
                        return bad(
                            "self-loop-odd",
                            format!("n{} lists self-loop values {:?} (each must occur twice)", u, uv),
                        );
                    }
                    i += 2;
                }
            } else if uv != vu {
                return bad(
                    if uv.len() != vu.len() {
                        "asymmetric-multiplicity"
                    } else {
                        "asymmetric-values"
                    },
                    format!(
                        "n{} lists n{} with values {:?}, n{} lists n{} with {:?}",
                        u, v, uv, v, u, vu
                    ),
                );
            }
        }
    }
    Ok(())
}

pub fn check_undirected_queries<F: Fl>(w: &World<F>, obs: &WorldObs) -> Result<(), Bad> {
    let n = obs.len();
    for u in 0..n {
        let nd = &w.nodes[u];
        let o = &obs[u];
        if F::deg_out(nd) != o.out.len() {
            return bad(
                "degree",
                format!("n{}.degree()={} but iter() yields {}", u, F::deg_out(nd), o.out.len()),
            );
        }
        if F::is_orphan(nd) != o.out.is_empty() {
            return bad("is_orphan", format!("n{}.is_orphan()={}", u, F::is_orphan(nd)));
        }
        let ii: Vec<Arc3> = {
            let a3 = |e: &F::Edge| {
                let (a, b, x) = F::edge_parts(e);
                (F::key(&a), F::key(&b), x)
            };
            F::edges_into_iter(nd).iter().map(a3).collect()
        };
        if ii != o.out {
            return bad(
                "into_iter",
                format!("`for e in &n{}` yields {:?}, iter() {:?}", u, ii, o.out),
            );
        }
        for k in 0..=(n as K) {
            let has = o.out.iter().any(|a| a.1 == k);
            if F::is_connected(nd, k) != has {
                return bad(
                    "is_connected",
                    format!("n{}.is_connected({})={} but list says {}", u, k, !has, has),
                );
            }
            match F::find_out(nd, k) {
                Some(x) if has && F::key(&x) == k => {}
                None if !has => {}
                r => {
                    return bad(
                        "find_adjacent",
                        format!(
                            "n{}.find_adjacent({}) = {:?}, list has it: {}",
                            u,
                            k,
                            r.map(|x| F::key(&x)),
                            has
                        ),
                    )
                }
            }
            if (k as usize) < n {
                let other = F::is_connected(&w.nodes[k as usize], u as K);
                if other != F::is_connected(nd, k) {
                    return bad(
                        "is_connected-asymmetric",
                        format!(
                            "n{}.is_connected({})={} but n{}.is_connected({})={}",
                            u,
                            k,
                            F::is_connected(nd, k),
                            k,
                            u,
                            other
                        ),
                    );
                }
            }
        }
    }
    Ok(())
}

// ---------------------------------------------------------------------------
// C03: relational contract of one transition
// ---------------------------------------------------------------------------

/// `post` equals `pre` with exactly one occurrence of `item` inserted somewhere.
fn is_insertion(pre: &[Arc3], post: &[Arc3], item: Arc3) -> bool {
    if post.len() != pre.len() + 1 {
        return false;
    }
    (0..post.len()).any(|i| {
        post[i] == item && post[..i] == pre[..i] && post[i + 1..] == pre[i..]
    })
}

/// `post` equals `pre` with exactly `k` occurrences of `item` inserted.
fn is_insertion_k(pre: &[Arc3], post: &[Arc3], item: Arc3, k: usize) -> bool {
    match k {
        0 => pre == post,
        1 => is_insertion(pre, post, item),
        _ => {
            if post.len() != pre.len() + k {
                return false;
            }
            // remove one occurrence at every possible position and recurse
            (0..post.len()).any(|i| {
                post[i] == item && {
                    let mut p = post.to_vec();
                    p.remove(i);
                    is_insertion_k(pre, &p, item, k - 1)
                }
            })
        }
    }
}

fn same_except(pre: &WorldObs, post: &WorldObs, except: &[usize]) -> Result<(), Bad> {
    for i in 0..pre.len() {
        if except.contains(&i) {
            continue;
        }
        if pre[i].out != post[i].out || pre[i].inn != post[i].inn {
            return bad(
                "bystander-changed",
                format!("n{} was not involved but changed: {:?} -> {:?}", i, pre[i], post[i]),
            );
        }
    }
    Ok(())
}

fn unchanged(pre: &WorldObs, post: &WorldObs, why: &str) -> Result<(), Bad> {
    for i in 0..pre.len() {
        if pre[i].out != post[i].out || pre[i].inn != post[i].inn {
            return bad(
                "failed-call-changed-state",
                format!("{}: n{} changed {:?} -> {:?}", why, i, pre[i], post[i]),
            );
        }
    }
    Ok(())
}

fn has_edge(directed: bool, pre: &WorldObs, u: K, v: K) -> bool {
    let _ = directed;
    // directed: u has an outgoing edge to v. undirected: u lists v (either
    // orientation shows up in u's single list).
    pre[u as usize].out.iter().any(|a| a.1 == v)
}

fn check_added(directed: bool, pre: &WorldObs, post: &WorldObs, u: K, v: K, e: E) -> Result<(), Bad> {
    let (ui, vi) = (u as usize, v as usize);
    if directed {
        let mut exp_out = pre[ui].out.clone();
        exp_out.push((u, v, e));
        if post[ui].out != exp_out {
            return bad(
                "connect/source-out-list",
                format!("n{} out {:?} -> {:?}, expected {:?}", u, pre[ui].out, post[ui].out, exp_out),
            );
        }
        let mut exp_in = pre[vi].inn.clone();
        exp_in.push((u, v, e));
        if post[vi].inn != exp_in {
            return bad(
                "connect/target-in-list",
                format!("n{} in {:?} -> {:?}, expected {:?}", v, pre[vi].inn, post[vi].inn, exp_in),
            );
        }
        if ui != vi {
            if post[ui].inn != pre[ui].inn {
                return bad("connect/source-in-list-changed", format!("n{} in changed", u));
            }
            if post[vi].out != pre[vi].out {
                return bad("connect/target-out-list-changed", format!("n{} out changed", v));
            }
        }
    } else if ui == vi {
        if !is_insertion_k(&pre[ui].out, &post[ui].out, (u, u, e), 2) {
            return bad(
                "connect/self-loop-not-listed-twice",
                format!("n{} list {:?} -> {:?}", u, pre[ui].out, post[ui].out),
            );
        }
    } else {
        if !is_insertion(&pre[ui].out, &post[ui].out, (u, v, e)) {
            return bad(
                "connect/caller-list",
                format!("n{} list {:?} -> {:?}, expected one ({},{},{}) more", u, pre[ui].out, post[ui].out, u, v, e),
            );
        }
        if !is_insertion(&pre[vi].out, &post[vi].out, (v, u, e)) {
            return bad(
                "connect/partner-list",
                format!("n{} list {:?} -> {:?}, expected one ({},{},{}) more", v, pre[vi].out, post[vi].out, v, u, e),
            );
        }
    }
    same_except(pre, post, &[ui, vi])
}

pub fn check_contract(
    directed: bool,
    pre: &WorldObs,
    op: &Op,
    ret: &Ret,
    post: &WorldObs,
) -> Result<(), Bad> {
    if let Ret::Fail(f) = ret {
        return bad(&format!("{}/{}", op.name(), f.kind()), format!("call did not return: {}", f.msg()));
    }
    match *op {
        Op::Connect(u, v, e) => {
            if *ret != Ret::Unit {
                return bad("connect/ret", format!("{:?}", ret));
            }
            check_added(directed, pre, post, u, v, e)
        }
        Op::TryConnect(u, v, e) => {
            let exists = has_edge(directed, pre, u, v);
            match ret {
                Ret::Res(Err(ErrK::Exists)) if exists => unchanged(pre, post, "try_connect failed"),
                Ret::Res(Ok(())) if !exists => check_added(directed, pre, post, u, v, e)
                    .map_err(|(c, d)| (c.replace("connect/", "try_connect/"), d)),
                _ => bad(
                    if exists {
                        "try_connect/accepted-duplicate"
                    } else {
                        "try_connect/refused-new-edge"
                    },
                    format!("edge already present: {}, returned {:?}", exists, ret),
                ),
            }
        }
        Op::Disconnect(u, v) => {
            let exists = has_edge(directed, pre, u, v);
            let (ui, vi) = (u as usize, v as usize);
            match ret {
                Ret::Val(Err(ErrK::NotFound)) if !exists => unchanged(pre, post, "disconnect failed"),
                Ret::Val(Ok(e)) if exists => {
                    let e = *e;
                    if directed {
                        if !is_insertion(&post[ui].out, &pre[ui].out, (u, v, e)) {
                            return bad(
                                "disconnect/source-out-list",
                                format!("returned {}; n{} out {:?} -> {:?}", e, u, pre[ui].out, post[ui].out),
                            );
                        }
                        if !is_insertion(&post[vi].inn, &pre[vi].inn, (u, v, e)) {
                            return bad(
                                "disconnect/target-in-list",
                                format!("returned {}; n{} in {:?} -> {:?}", e, v, pre[vi].inn, post[vi].inn),
                            );
                        }
                        if ui != vi {
                            if post[ui].inn != pre[ui].inn {
                                return bad("disconnect/source-in-list-changed", format!("n{}", u));
                            }
                            if post[vi].out != pre[vi].out {
                                return bad("disconnect/target-out-list-changed", format!("n{}", v));
                            }
                        }
                    } else if ui == vi {
                        if !is_insertion_k(&post[ui].out, &pre[ui].out, (u, u, e), 2) {
                            return bad(
                                "disconnect/self-loop-half-kept",
                                format!("returned {}; n{} list {:?} -> {:?}", e, u, pre[ui].out, post[ui].out),
                            );
                        }
                    } else {
                        if !is_insertion(&post[ui].out, &pre[ui].out, (u, v, e)) {
                            return bad(
                                "disconnect/caller-list",
                                format!("returned {}; n{} list {:?} -> {:?}", e, u, pre[ui].out, post[ui].out),
                            );
                        }
                        if !is_insertion(&post[vi].out, &pre[vi].out, (v, u, e)) {
                            return bad(
                                "disconnect/partner-half-edge-kept",
                                format!("returned {}; n{} list {:?} -> {:?}", e, v, pre[vi].out, post[vi].out),
                            );
                        }
                    }
                    same_except(pre, post, &[ui, vi])
                }
                _ => bad(
                    if exists {
                        "disconnect/refused-existing-edge"
                    } else {
                        "disconnect/removed-nonexistent"
                    },
                    format!("edge present: {}, returned {:?}", exists, ret),
                ),
            }
        }
        Op::Isolate(u) => {
            if *ret != Ret::Unit {
                return bad("isolate/ret", format!("{:?}", ret));
            }
            for i in 0..pre.len() {
                let (exp_out, exp_in): (Vec<Arc3>, Vec<Arc3>) = if i == u as usize {
                    (vec![], vec![])
                } else {
                    (
                        pre[i].out.iter().filter(|a| a.1 != u).cloned().collect(),
                        pre[i].inn.iter().filter(|a| a.0 != u).cloned().collect(),
                    )
                };
                if post[i].out != exp_out || post[i].inn != exp_in {
                    return bad(
                        if i == u as usize {
                            "isolate/own-lists-not-empty"
                        } else {
                            "isolate/neighbour-lists"
                        },
                        format!(
                            "after n{}.isolate(): n{} has out {:?} in {:?}, expected out {:?} in {:?}",
                            u, i, post[i].out, post[i].inn, exp_out, exp_in
                        ),
                    );
                }
            }
            Ok(())
        }
    }
}
