//! Explicit-state exploration of the edge-operation state space (C01, C02, C03).
//!
//! States are implementation states (complete observation of every node's
//! adjacency lists); the transition function is the library itself. Every
//! transition rebuilds a fresh world by replaying the shortest history that
//! reaches the state.

use crate::core::*;
use crate::flavor::*;
use crate::model::*;
use crate::report::*;
use serde::{Deserialize, Serialize};
use serde_json::json;
use std::collections::{BTreeMap, HashMap};

#[derive(Serialize, Deserialize, Clone, Debug)]
pub struct SeqParams {
    pub n: usize,
    pub max_edges: usize,
    pub vals: usize,
    #[serde(default)]
    pub provenance: bool,
    /// > 0: from every explored state also every unmerged continuation of this many operations
    #[serde(default)]
    pub suffix: usize,
}

pub struct Out {
    pub viols: BTreeMap<String, Violation>,
    pub stats: Stats,
}

impl Out {
    pub fn new() -> Out {
        Out {
            viols: BTreeMap::new(),
            stats: Stats::default(),
        }
    }
    /// Keep the smallest violation of each (flavour, class).
    pub fn report(&mut self, mut v: Violation) {
        self.stats.inc("violating_cases");
        if crate::gsweep::churn() != 0 {
            if let Some(o) = v.case.as_object_mut() {
                o.insert("churn".into(), serde_json::json!(crate::gsweep::churn()));
            }
            if !v.what.contains("[graph reached") {
                v.what = format!("[graph reached {}then built as shown] {}", crate::gsweep::churn_text(crate::gsweep::churn()), v.what);
            }
        }
        if crate::flavor::collide() != 0 {
            // the case must be replayed with the same key-hash mode
            if let Some(o) = v.case.as_object_mut() {
                o.insert("collide".into(), serde_json::json!(crate::flavor::collide()));
            }
            if !v.what.starts_with("[keys") {
                v.what = format!("[keys of a type whose Hash maps every key to the same hash value] {}", v.what);
            }
        }
        let key = format!("{}|{}", v.flavour, v.class);
        match self.viols.get(&key) {
            Some(old) if old.order <= v.order => {}
            _ => {
                self.viols.insert(key, v);
            }
        }
    }
}

pub fn alphabet(n: usize, vals: usize) -> Vec<Op> {
    let mut a = Vec::new();
    let n = n as K;
    for u in 0..n {
        for v in 0..n {
            for e in 1..=vals as E {
                a.push(Op::Connect(u, v, e));
            }
        }
    }
    for u in 0..n {
        for v in 0..n {
            for e in 1..=vals as E {
                a.push(Op::TryConnect(u, v, e));
            }
        }
    }
    for u in 0..n {
        for v in 0..n {
            a.push(Op::Disconnect(u, v));
        }
    }
    for u in 0..n {
        a.push(Op::Isolate(u));
    }
    a
}

/// Shape predicates of a transition, part of the violation class so that one
/// class names one defect.
pub fn shape_tag(pre: &WorldObs, op: &Op) -> String {
    let mut tags = Vec::new();
    if op.is_self() {
        tags.push("u==v");
    }
    let (u, v) = match *op {
        Op::Connect(u, v, _) | Op::TryConnect(u, v, _) | Op::Disconnect(u, v) => (u, Some(v)),
        Op::Isolate(u) => (u, None),
    };
    let o = &pre[u as usize];
    if let Some(v) = v {
        let par = o.out.iter().filter(|a| a.1 == v).count();
        if par > 1 && u != v || par > 2 {
            tags.push("parallel");
        }
    } else {
        if o.out.iter().any(|a| a.1 == u) {
            tags.push("has-self-loop");
        }
        let mut seen = std::collections::BTreeSet::new();
        if o.out.iter().any(|a| a.1 != u && !seen.insert(a.1)) {
            tags.push("parallel");
        }
    }
    if tags.is_empty() {
        "plain".to_string()
    } else {
        tags.join(",")
    }
}

fn mk_case(flavour: &str, n: usize, history: &[Op], op: Option<&Op>) -> serde_json::Value {
    json!({"kind": "seq", "flavour": flavour, "n": n, "history": history, "op": op,
           "program": format!("{}{}", show_history(history), match op { Some(o) => format!("; >> {}", o.show()), None => String::new() })})
}

/// Check the state invariant of `property` on a world; returns Bad if violated.
pub fn state_invariant<F: Fl>(property: &str, w: &World<F>, obs: &WorldObs) -> Result<(), Bad> {
    match property {
        "C01" => {
            check_mirror(obs)?;
            match guarded(|| check_directed_queries(w, obs)) {
                Ok(r) => r,
                Err(f) => Err((format!("query-{}", f.kind()), f.msg().to_string())),
            }
        }
        "C02" => {
            check_symmetry(obs)?;
            match guarded(|| check_undirected_queries(w, obs)) {
                Ok(r) => r,
                Err(f) => Err((format!("query-{}", f.kind()), f.msg().to_string())),
            }
        }
        _ => Ok(()),
    }
}

/// Long structured histories: a hub with up to `k` outgoing / incoming /
/// parallel / self-loop edges, then every operation of the alphabet. Reaches
/// list lengths (17+, 33+) far beyond the exhaustively explored state space,
/// e.g. for thresholds of inline buffers.
pub fn long_family<F: Fl>(job: &Job, kmax: usize, out: &mut Out) {
    let prop = job.property.as_str();
    let n = 3usize;
    let alpha = alphabet(n, 1);
    let families: [(&str, fn(usize) -> Op); 5] = [
        ("hub-out", |i| Op::Connect(0, 1 + (i % 2) as K, 1 + (i % 3) as E)),
        ("hub-in", |i| Op::Connect(1 + (i % 2) as K, 0, 1 + (i % 3) as E)),
        ("parallel", |i| Op::Connect(0, 1, 1 + (i % 3) as E)),
        ("self-loops", |i| Op::Connect(0, 0, 1 + (i % 3) as E)),
        ("mixed", |i| match i % 4 {
            0 => Op::Connect(0, 1, 1 + (i % 3) as E),
            1 => Op::Connect(1, 0, 1 + (i % 3) as E),
            2 => Op::Connect(0, 0, 1 + (i % 3) as E),
            _ => Op::Connect(2, 0, 1 + (i % 3) as E),
        }),
    ];
    for (fname, gen) in families.iter() {
        for k in 0..=kmax {
            let h: Vec<Op> = (0..k).map(|i| gen(i)).collect();
            crate::progress::set_case(|| mk_case(F::NAME, n, &h, None).to_string());
            let w = match World::<F>::build(n, &h) {
                Ok(w) => w,
                Err((i, f)) => {
                    out.report(Violation { property: prop.into(), engine: "seqx".into(), flavour: F::NAME.into(), class: format!("history-step-{}-failed/{}", i, f.kind()), what: format!("connect number {} of a long history failed: {}", i, f.msg()), case: mk_case(F::NAME, n, &h, None), order: k as u64 });
                    break;
                }
            };
            let pre = match w.observe() {
                Ok(o) => o,
                Err(f) => {
                    out.report(Violation { property: prop.into(), engine: "seqx".into(), flavour: F::NAME.into(), class: format!("unobservable/{}", f.kind()), what: f.msg().to_string(), case: mk_case(F::NAME, n, &h, None), order: k as u64 });
                    break;
                }
            };
            out.stats.inc("states");
            out.stats.max("max_edges_at_one_node", pre.iter().map(|o| o.out.len() + o.inn.len()).max().unwrap_or(0) as u64);
            if prop != "C03" {
                if let Err((code, detail)) = state_invariant(prop, &w, &pre) {
                    out.report(Violation { property: prop.into(), engine: "seqx".into(), flavour: F::NAME.into(), class: format!("state/{}/initial", code), what: detail, case: mk_case(F::NAME, n, &h, None), order: k as u64 });
                    continue;
                }
            }
            for op in &alpha {
                crate::progress::tick();
                let w = World::<F>::build(n, &h).ok().expect("rebuild");
                let ret = w.apply(op);
                out.stats.inc("transitions");
                out.stats.inc("evaluations");
                if k >= 17 {
                    out.stats.inc("nontrivial");
                }
                let post = if ret.is_fail() { None } else { w.observe().ok() };
                let order = (k as u64 + 1) * 100;
                if prop == "C03" {
                    let chk = match &post {
                        Some(post) => check_contract(F::DIRECTED, &pre, op, &ret, post),
                        None => check_contract(F::DIRECTED, &pre, op, &ret, &pre),
                    };
                    if let Err((code, detail)) = chk {
                        out.report(Violation { property: prop.into(), engine: "seqx".into(), flavour: F::NAME.into(), class: format!("{}/{}", code, shape_tag(&pre, op)), what: format!("{} after {} edges of family {}: {}", op.show(), k, fname, detail), case: mk_case(F::NAME, n, &h, Some(op)), order });
                    }
                } else if let Some(post) = &post {
                    if let Err((code, detail)) = state_invariant(prop, &w, post) {
                        out.report(Violation { property: prop.into(), engine: "seqx".into(), flavour: F::NAME.into(), class: format!("state/{}/after-{}/{}", code, op.name(), shape_tag(&pre, op)), what: format!("{} after {} edges of family {}: {}", op.show(), k, fname, detail), case: mk_case(F::NAME, n, &h, Some(op)), order });
                    }
                }
            }
        }
    }
}

/// Every history of at most `depth` operations, **without merging states**:
/// the explicit-state search above identifies two histories that lead to the
/// same adjacency lists, which is sound only as long as the lists are the
/// whole state of a node. Hidden state (a key index, a cache, a counter kept
/// next to the lists) survives a history and changes what a later call does;
/// here every history is therefore executed as it stands, on one object, and
/// the invariant / contract is checked on its last transition. Edge values are
/// the position of the call in the history, so every edge is recognisable.
pub fn deep_histories<F: Fl>(job: &Job, n: usize, depth: usize, out: &mut Out) {
    deep_from::<F>(job, n, &[], depth, true, out)
}

/// `deep_histories` continued from the history `base` (which is replayed, not
/// checked): every suffix of at most `depth` operations, unmerged. With
/// `shard_here` the suffixes are split among the job's shards by their first
/// two operations; otherwise the caller has already chosen this base for this shard.
pub fn deep_from<F: Fl>(job: &Job, n: usize, base: &[Op], depth: usize, shard_here: bool, out: &mut Out) {
    let prop = job.property.as_str();
    let alpha = alphabet(n, 1);
    let with_val = |op: &Op, d: usize| -> Op {
        let e = (d + 1) as E;
        match *op {
            Op::Connect(u, v, _) => Op::Connect(u, v, e),
            Op::TryConnect(u, v, _) => Op::TryConnect(u, v, e),
            o => o,
        }
    };
    // explicit stack of (history, next op index)
    let b = base.len();
    let mut h: Vec<Op> = base.to_vec();
    let mut idx: Vec<usize> = vec![0];
    let mut first: Vec<usize> = Vec::new();
    loop {
        let d = h.len() - b;
        let i = *idx.last().unwrap();
        if i >= alpha.len() {
            idx.pop();
            if d == 0 {
                break;
            }
            h.pop();
            first.truncate(h.len() - b);
            continue;
        }
        *idx.last_mut().unwrap() += 1;
        if shard_here && d == 1 && (first[0] * alpha.len() + i) % job.nshards != job.shard {
            continue;
        }
        let op = with_val(&alpha[i], if b == 0 { d } else { 40 + d });
        crate::progress::tick();
        let w = match World::<F>::build(n, &h) {
            Ok(w) => w,
            Err(_) => continue,
        };
        let pre = match w.observe() {
            Ok(o) => o,
            Err(_) => continue,
        };
        let ret = w.apply(&op);
        out.stats.inc("transitions");
        out.stats.inc("evaluations");
        out.stats.inc("histories_unmerged");
        if d >= 2 {
            out.stats.inc("nontrivial");
        }
        out.stats.max("max_depth", (d + 1) as u64);
        let order = (d as u64 + 1) * 100 + n as u64;
        let post = if ret.is_fail() { None } else { w.observe().ok() };
        let mut violated = ret.is_fail();
        if prop == "C03" {
            let chk = match &post {
                Some(post) => check_contract(F::DIRECTED, &pre, &op, &ret, post),
                None => check_contract(F::DIRECTED, &pre, &op, &ret, &pre),
            };
            if let Err((code, detail)) = chk {
                violated = true;
                out.report(Violation { property: prop.into(), engine: "seqx".into(), flavour: F::NAME.into(), class: format!("{}/{}", code, shape_tag(&pre, &op)), what: format!("{} after the history [{}] (executed on one object): {}", op.show(), show_history(&h), detail), case: mk_case(F::NAME, n, &h, Some(&op)), order });
            }
        } else if let Some(post) = &post {
            if let Err((code, detail)) = state_invariant(prop, &w, post) {
                violated = true;
                out.report(Violation { property: prop.into(), engine: "seqx".into(), flavour: F::NAME.into(), class: format!("state/{}/after-{}/{}", code, op.name(), shape_tag(&pre, &op)), what: format!("after [{}; {}] (executed on one object): {}", show_history(&h), op.show(), detail), case: mk_case(F::NAME, n, &h, Some(&op)), order });
            }
        }
        if !violated && d + 1 < depth {
            h.push(op);
            first.push(i);
            idx.push(0);
        }
    }
}

pub fn explore<F: Fl>(job: &Job, out: &mut Out) {
    if let Some(k) = job.params.get("long").and_then(|v| v.as_u64()) {
        return long_family::<F>(job, k as usize, out);
    }
    if let Some(d) = job.params.get("deep").and_then(|v| v.as_u64()) {
        let n = job.params.get("n").and_then(|v| v.as_u64()).unwrap_or(2) as usize;
        return deep_histories::<F>(job, n, d as usize, out);
    }
    let p: SeqParams = serde_json::from_value(job.params.clone()).expect("seq params");
    let prop = job.property.as_str();
    let directed = F::DIRECTED;
    let alpha = alphabet(p.n, p.vals);

    let mut index: HashMap<WorldObs, usize> = HashMap::new();
    let mut hist: Vec<Vec<Op>> = Vec::new();
    let mut states: Vec<WorldObs> = Vec::new();

    let w0 = World::<F>::new(p.n);
    let s0 = w0.observe().expect("initial observation");
    if let Err((code, detail)) = state_invariant(prop, &w0, &s0) {
        out.report(Violation {
            property: prop.into(),
            engine: "seqx".into(),
            flavour: F::NAME.into(),
            class: format!("state/{}/initial", code),
            what: detail,
            case: mk_case(F::NAME, p.n, &[], None),
            order: 0,
        });
    }
    index.insert(s0.clone(), 0);
    hist.push(vec![]);
    states.push(s0);

    let mut cur = 0usize;
    while cur < states.len() {
        let pre = states[cur].clone();
        let h = hist[cur].clone();
        crate::progress::set_case(|| mk_case(F::NAME, p.n, &h, None).to_string());
        let live = live_edges(directed, &pre);
        out.stats.inc("states");
        out.stats.max("max_depth", h.len() as u64);
        if pre.iter().any(|o| o.out.iter().any(|a| a.0 == a.1)) {
            out.stats.inc("states_with_self_loop");
        }
        if (0..p.n).any(|u| {
            (0..p.n).any(|v| pre[u].out.iter().filter(|a| a.1 as usize == v).count() > if !directed && u == v { 2 } else { 1 })
        }) {
            out.stats.inc("states_with_parallel_edges");
        }
        for op in &alpha {
            if matches!(op, Op::Connect(..) | Op::TryConnect(..)) && live >= p.max_edges {
                continue;
            }
            crate::progress::tick();
            let w = match World::<F>::build(p.n, &h) {
                Ok(w) => w,
                Err((i, f)) => {
                    hassert!(false, "history of a reached state failed at {}: {:?}", i, f);
                    unreachable!()
                }
            };
            let ret = w.apply(op);
            out.stats.inc("transitions");
            out.stats.inc("evaluations");
            out.stats.outcome(format!("{}:{:?}", op.name(), match &ret { Ret::Fail(f) => Ret::Fail(Fail::Panic(f.kind().to_string())), r => r.clone() }));
            let failed_call = matches!(ret, Ret::Res(Err(_)) | Ret::Val(Err(_)));
            if failed_call {
                out.stats.inc("transitions_failing_calls");
            }
            if op.is_self() {
                out.stats.inc("transitions_self_operand");
            }
            if failed_call || op.is_self() || matches!(op, Op::Disconnect(..) | Op::Isolate(..)) {
                out.stats.inc("nontrivial");
            }
            if h.len() < 2 && out.stats.samples.len() < 4 && !matches!(op, Op::Connect(..)) {
                out.stats.sample(json!({"flavour": F::NAME, "history": show_history(&h), "op": op.show(), "returned": format!("{:?}", ret)}));
            }
            let order = (h.len() as u64 + 1) * 100 + p.n as u64;
            let post = if ret.is_fail() {
                None
            } else {
                match w.observe() {
                    Ok(o) => Some(o),
                    Err(f) => {
                        // the structure cannot even be iterated after the call
                        out.report(Violation {
                            property: prop.into(),
                            engine: "seqx".into(),
                            flavour: F::NAME.into(),
                            class: format!("{}/{}/unobservable-after/{}", op.name(), shape_tag(&pre, op), f.kind()),
                            what: format!("after {}: iterating the nodes failed: {}", op.show(), f.msg()),
                            case: mk_case(F::NAME, p.n, &h, Some(op)),
                            order,
                        });
                        continue;
                    }
                }
            };
            let mut violated = false;
            if prop == "C03" {
                let chk = match &post {
                    Some(post) => check_contract(directed, &pre, op, &ret, post),
                    None => check_contract(directed, &pre, op, &ret, &pre),
                };
                if let Err((code, detail)) = chk {
                    violated = true;
                    out.report(Violation {
                        property: prop.into(),
                        engine: "seqx".into(),
                        flavour: F::NAME.into(),
                        class: format!("{}/{}", code, shape_tag(&pre, op)),
                        what: format!("{} on state reached by [{}]: {}", op.show(), show_history(&h), detail),
                        case: mk_case(F::NAME, p.n, &h, Some(op)),
                        order,
                    });
                } else if p.provenance && post.is_some() {
                    provenance_check::<F>(prop, &p, &h, op, &ret, post.as_ref().unwrap(), out, order);
                }
            }
            let post = match post {
                Some(p) => p,
                None => continue, // failing call: C03's business; state not expanded
            };
            if prop != "C03" {
                if let Err((code, detail)) = state_invariant(prop, &w, &post) {
                    violated = true;
                    out.report(Violation {
                        property: prop.into(),
                        engine: "seqx".into(),
                        flavour: F::NAME.into(),
                        class: format!("state/{}/after-{}/{}", code, op.name(), shape_tag(&pre, op)),
                        what: format!("after [{}; {}]: {}", show_history(&h), op.show(), detail),
                        case: mk_case(F::NAME, p.n, &h, Some(op)),
                        order,
                    });
                }
            }
            if violated {
                continue;
            }
            if !index.contains_key(&post) {
                if live_edges(directed, &post) > p.max_edges {
                    continue;
                }
                let id = states.len();
                index.insert(post.clone(), id);
                let mut nh = h.clone();
                nh.push(*op);
                hist.push(nh);
                states.push(post);
            }
        }
        cur += 1;
    }
    // from every explored state: every continuation of `suffix` operations on ONE
    // object, unmerged (hidden state that needs a particular adjacency to matter,
    // e.g. a remembered list position that a later removal shifts)
    if p.suffix > 0 {
        for (i, h) in hist.iter().enumerate() {
            if i % job.nshards != job.shard {
                continue;
            }
            crate::progress::set_case(|| mk_case(F::NAME, p.n, h, None).to_string());
            out.stats.inc("suffix_bases");
            deep_from::<F>(job, p.n, h, p.suffix, false, out);
        }
    }
}

// ---------------------------------------------------------------------------
// Handle provenance (C03): the effect is identical whichever handle is used.
// ---------------------------------------------------------------------------

pub const PROVENANCES: [&str; 7] = [
    "original",
    "clone",
    "graph.get",
    "graph[index]",
    "edge-endpoint",
    "search-result",
    "path-node",
];

/// Obtain a handle of node `k` with the given provenance, if it exists in this state.
pub fn handle<F: Fl>(w: &World<F>, g: &F::Graph, k: K, prov: &str) -> Option<F::Node> {
    let n = w.n();
    match prov {
        "original" => Some(w.nodes[k as usize].clone()),
        "clone" => Some(w.nodes[k as usize].clone().clone()),
        "graph.get" => F::g_get(g, k),
        "graph[index]" => Some(F::g_index(g, k)),
        "edge-endpoint" => {
            for x in 0..n {
                for e in F::edges_out(&w.nodes[x]).iter().chain(F::edges_in(&w.nodes[x]).iter()) {
                    let (a, b, _) = F::edge_parts(e);
                    if F::key(&a) == k && x != k as usize {
                        return Some(a);
                    }
                    if F::key(&b) == k && x != k as usize {
                        return Some(b);
                    }
                }
            }
            // own edges as a fallback (self-loops)
            for e in F::edges_out(&w.nodes[k as usize]).iter() {
                let (a, _, _) = F::edge_parts(e);
                return Some(a);
            }
            None
        }
        "search-result" | "path-node" => {
            for r in 0..n {
                if r == k as usize {
                    continue;
                }
                let cfg = Cfg {
                    kind: Kind::Bfs,
                    transpose: false,
                    target: Some(k),
                    meth: Meth::None,
                    res: if prov == "search-result" { ResK::Search } else { ResK::Path },
                    alt: false,
                    tt: false,
                };
                let (_, nodes) = F::search(&w.nodes[r], &cfg, &mut |_| true);
                if let Some(h) = nodes.into_iter().find(|x| F::key(x) == k) {
                    return Some(h);
                }
            }
            None
        }
        _ => None,
    }
}

fn apply_with<F: Fl>(a: &F::Node, b: Option<&F::Node>, op: &Op) -> Ret {
    let r = guarded(|| match *op {
        Op::Connect(_, _, e) => {
            F::connect(a, b.unwrap(), e);
            Ret::Unit
        }
        Op::TryConnect(_, _, e) => Ret::Res(F::try_connect(a, b.unwrap(), e)),
        Op::Disconnect(_, v) => Ret::Val(F::disconnect(a, v)),
        Op::Isolate(_) => {
            F::isolate(a);
            Ret::Unit
        }
    });
    match r {
        Ok(r) => r,
        Err(f) => Ret::Fail(f),
    }
}

#[allow(clippy::too_many_arguments)]
fn provenance_check<F: Fl>(
    prop: &str,
    p: &SeqParams,
    h: &[Op],
    op: &Op,
    base_ret: &Ret,
    base_post: &WorldObs,
    out: &mut Out,
    order: u64,
) {
    let (u, v) = match *op {
        Op::Connect(u, v, _) | Op::TryConnect(u, v, _) => (u, Some(v)),
        Op::Disconnect(u, _) | Op::Isolate(u) => (u, None),
    };
    for pu in PROVENANCES.iter() {
        for pv in PROVENANCES.iter() {
            if v.is_none() && *pv != "original" {
                continue;
            }
            if *pu == "original" && *pv == "original" {
                continue;
            }
            let w = World::<F>::build(p.n, h).ok().unwrap();
            let mut g = F::g_new();
            for nd in &w.nodes {
                F::g_insert(&mut g, nd.clone());
            }
            let got = guarded(|| {
                let hu = handle::<F>(&w, &g, u, pu);
                let hv = match v {
                    Some(v) => handle::<F>(&w, &g, v, pv),
                    None => Some(w.nodes[0].clone()),
                };
                (hu, hv)
            });
            let (hu, hv) = match got {
                Ok((Some(a), Some(b))) => (a, b),
                Ok(_) => continue, // provenance does not exist in this state
                Err(_) => continue, // obtaining the handle failed: other properties' business
            };
            let ret = apply_with::<F>(&hu, if v.is_some() { Some(&hv) } else { None }, op);
            out.stats.inc("provenance_transitions");
            out.stats.inc("evaluations");
            let post = w.observe();
            let same = ret == *base_ret && post.as_ref().ok() == Some(base_post);
            if !same {
                out.report(Violation {
                    property: prop.into(),
                    engine: "seqx".into(),
                    flavour: F::NAME.into(),
                    class: format!("provenance/{}/{}+{}", op.name(), pu, pv),
                    what: format!(
                        "{} via handles ({}, {}) after [{}]: returned {:?} / state {:?}; via the original handles: {:?} / {:?}",
                        op.show(), pu, pv, show_history(h), ret, post, base_ret, base_post
                    ),
                    case: json!({"kind": "seq-prov", "flavour": F::NAME, "n": p.n, "history": h, "op": op, "pu": pu, "pv": pv}),
                    order,
                });
            }
        }
    }
}

// ---------------------------------------------------------------------------
// Replay of a single case, without the explorer
// ---------------------------------------------------------------------------

pub fn replay<F: Fl>(property: &str, case: &serde_json::Value) -> Vec<Violation> {
    let n = case["n"].as_u64().unwrap() as usize;
    let h: Vec<Op> = serde_json::from_value(case["history"].clone()).unwrap();
    let op: Option<Op> = serde_json::from_value(case["op"].clone()).unwrap();
    let mut out = Out::new();
    let directed = F::DIRECTED;
    let w = match World::<F>::build(n, &h) {
        Ok(w) => w,
        Err((i, f)) => {
            out.report(Violation {
                property: property.into(),
                engine: "seqx".into(),
                flavour: F::NAME.into(),
                class: format!("history-step-{}-failed/{}", i, f.kind()),
                what: f.msg().to_string(),
                case: case.clone(),
                order: 0,
            });
            return out.viols.into_values().collect();
        }
    };
    let pre = w.observe().expect("observe pre");
    println!("  pre-state : {:?}", pre);
    let mk = |class: String, what: String| Violation {
        property: property.into(),
        engine: "seqx".into(),
        flavour: F::NAME.into(),
        class,
        what,
        case: case.clone(),
        order: 0,
    };
    let op = match op {
        Some(op) => op,
        None => {
            if let Err((code, detail)) = state_invariant(property, &w, &pre) {
                out.report(mk(format!("state/{}/initial", code), detail));
            }
            return out.viols.into_values().collect();
        }
    };
    if case["kind"] == "seq-prov" {
        let base_ret = w.apply(&op);
        let base_post = w.observe().ok();
        let w2 = World::<F>::build(n, &h).ok().unwrap();
        let mut g = F::g_new();
        for nd in &w2.nodes {
            F::g_insert(&mut g, nd.clone());
        }
        let pu = case["pu"].as_str().unwrap();
        let pv = case["pv"].as_str().unwrap();
        let (u, v) = match op {
            Op::Connect(u, v, _) | Op::TryConnect(u, v, _) => (u, Some(v)),
            Op::Disconnect(u, _) | Op::Isolate(u) => (u, None),
        };
        let hu = handle::<F>(&w2, &g, u, pu).expect("handle u");
        let hv = v.map(|v| handle::<F>(&w2, &g, v, pv).expect("handle v"));
        let ret = apply_with::<F>(&hu, hv.as_ref(), &op);
        let post = w2.observe().ok();
        println!("  original handles: {:?} -> {:?}", base_ret, base_post);
        println!("  ({}, {}) handles: {:?} -> {:?}", pu, pv, ret, post);
        if ret != base_ret || post != base_post {
            out.report(mk(
                format!("provenance/{}/{}+{}", op.name(), pu, pv),
                "effect differs between handles".into(),
            ));
        }
        return out.viols.into_values().collect();
    }
    let ret = w.apply(&op);
    println!("  call      : {}  ->  {:?}", op.show(), ret);
    let post = if ret.is_fail() { None } else { w.observe().ok() };
    println!("  post-state: {:?}", post);
    if property == "C03" {
        let chk = match &post {
            Some(post) => check_contract(directed, &pre, &op, &ret, post),
            None => check_contract(directed, &pre, &op, &ret, &pre),
        };
        if let Err((code, detail)) = chk {
            out.report(mk(format!("{}/{}", code, shape_tag(&pre, &op)), detail));
        }
    } else if let Some(post) = &post {
        if let Err((code, detail)) = state_invariant(property, &w, post) {
            out.report(mk(
                format!("state/{}/after-{}/{}", code, op.name(), shape_tag(&pre, &op)),
                detail,
            ));
        }
    }
    out.viols.into_values().collect()
}
