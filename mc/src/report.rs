//! Violations, statistics, evidence files, replay files, known findings.

use serde::{Deserialize, Serialize};
use serde_json::{json, Value};
use std::collections::{BTreeMap, BTreeSet};

#[derive(Serialize, Deserialize, Clone, Debug)]
pub struct Violation {
    pub property: String,
    pub engine: String,
    pub flavour: String,
    /// stable class string computed from the failing case itself
    pub class: String,
    /// human-readable detail
    pub what: String,
    /// replayable descriptor (engine specific)
    pub case: Value,
    /// size of the case; the smallest one of a class is reported
    pub order: u64,
}

#[derive(Serialize, Deserialize, Clone, Debug, Default)]
pub struct Stats {
    pub counters: BTreeMap<String, u64>,
    /// maxima instead of sums
    pub maxima: BTreeMap<String, u64>,
    pub samples: Vec<Value>,
    /// distinct observed outcome signatures (vacuity detector)
    pub outcomes: BTreeSet<String>,
    pub caps_hit: Vec<String>,
}

impl Stats {
    pub fn add(&mut self, k: &str, v: u64) {
        *self.counters.entry(k.to_string()).or_insert(0) += v;
    }
    pub fn inc(&mut self, k: &str) {
        self.add(k, 1);
    }
    pub fn max(&mut self, k: &str, v: u64) {
        let e = self.maxima.entry(k.to_string()).or_insert(0);
        if v > *e {
            *e = v;
        }
    }
    pub fn get(&self, k: &str) -> u64 {
        self.counters.get(k).copied().unwrap_or(0)
    }
    pub fn sample(&mut self, v: Value) {
        if self.samples.len() < 6 {
            self.samples.push(v);
        }
    }
    pub fn outcome(&mut self, s: String) {
        if self.outcomes.len() < 100_000 {
            self.outcomes.insert(s);
        }
    }
    pub fn merge(&mut self, o: &Stats) {
        for (k, v) in &o.counters {
            self.add(k, *v);
        }
        for (k, v) in &o.maxima {
            self.max(k, *v);
        }
        for s in &o.samples {
            if self.samples.len() < 12 {
                self.samples.push(s.clone());
            }
        }
        for s in &o.outcomes {
            self.outcomes.insert(s.clone());
        }
        for c in &o.caps_hit {
            if !self.caps_hit.contains(c) {
                self.caps_hit.push(c.clone());
            }
        }
    }
}

/// A unit of work handed to a worker subprocess.
#[derive(Serialize, Deserialize, Clone, Debug)]
pub struct Job {
    pub property: String,
    pub engine: String,
    pub flavour: String,
    pub tier: String,
    pub params: Value,
    pub shard: usize,
    pub nshards: usize,
    #[serde(default)]
    pub trace: bool,
}

impl Job {
    pub fn label(&self) -> String {
        format!(
            "{}:{}:{}:{}[{}/{}]",
            self.property, self.engine, self.flavour, self.params, self.shard, self.nshards
        )
    }
}

#[derive(Serialize, Deserialize, Clone, Debug)]
pub struct Finding {
    pub property: String,
    pub flavour: String,
    pub class: String,
    pub witness: String,
    /// "open" or "fixed"
    pub status: String,
    #[serde(default)]
    pub commit: Option<String>,
    #[serde(default)]
    pub note: Option<String>,
}

#[derive(Serialize, Deserialize, Clone, Debug, Default)]
pub struct KnownFindings {
    pub findings: Vec<Finding>,
}

impl KnownFindings {
    pub fn load(path: &str) -> KnownFindings {
        match std::fs::read_to_string(path) {
            Ok(s) => serde_json::from_str(&s).unwrap_or_else(|e| {
                eprintln!("machinery error: cannot parse {}: {}", path, e);
                std::process::exit(2);
            }),
            Err(_) => KnownFindings::default(),
        }
    }
    pub fn open_match(&self, v: &Violation) -> Option<&Finding> {
        self.findings.iter().find(|f| {
            f.status == "open"
                && f.property == v.property
                && f.flavour == v.flavour
                && f.class == v.class
        })
    }
    pub fn is_open_class(&self, property: &str, flavour: &str, class: &str) -> bool {
        self.findings.iter().any(|f| {
            f.status == "open" && f.property == property && f.flavour == flavour && f.class == class
        })
    }
}

pub fn digest(s: &str) -> String {
    // FNV-1a, enough for file names
    let mut h: u64 = 0xcbf29ce484222325;
    for b in s.bytes() {
        h ^= b as u64;
        h = h.wrapping_mul(0x100000001b3);
    }
    format!("{:016x}", h)
}

#[allow(clippy::too_many_arguments)]
pub fn write_evidence(
    path: &str,
    property: &str,
    tier: &str,
    seed: u64,
    level: &str,
    stats: &Stats,
    rule: &str,
    bounds: Value,
    exhaustive: bool,
    assumptions: &[String],
    wall_s: f64,
    violations: usize,
    known: usize,
) {
    let mut cov = serde_json::Map::new();
    let evaluations = stats.get("evaluations");
    let nontrivial = stats.get("nontrivial");
    cov.insert("evaluations".into(), json!(evaluations));
    cov.insert("distinct_nontrivial".into(), json!(nontrivial));
    cov.insert("rule".into(), json!(rule));
    cov.insert("samples".into(), json!(stats.samples));
    if stats.get("states") > 0 {
        cov.insert("states".into(), json!(stats.get("states")));
        cov.insert("transitions".into(), json!(stats.get("transitions")));
        cov.insert(
            "traces_validated_against_impl".into(),
            json!(stats.get("transitions")),
        );
    }
    cov.insert("exhaustive".into(), json!(exhaustive && stats.caps_hit.is_empty()));
    cov.insert("bounds".into(), bounds);
    cov.insert("distinct_outcomes".into(), json!(stats.outcomes.len()));
    cov.insert("caps_hit".into(), json!(stats.caps_hit));
    cov.insert("counters".into(), json!(stats.counters));
    cov.insert("maxima".into(), json!(stats.maxima));
    cov.insert("known_findings_matched".into(), json!(known));
    let ev = json!({
        "property_id": property,
        "tier": tier,
        "seed": seed,
        "level": level,
        "coverage": Value::Object(cov),
        "assumptions": assumptions,
        "wall_s": wall_s,
        "violations": violations,
    });
    if let Some(dir) = std::path::Path::new(path).parent() {
        let _ = std::fs::create_dir_all(dir);
    }
    std::fs::write(path, serde_json::to_string_pretty(&ev).unwrap() + "\n").unwrap_or_else(|e| {
        eprintln!("machinery error: cannot write {}: {}", path, e);
        std::process::exit(2);
    });
}
