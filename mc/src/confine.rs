//! C16, last clause: "no safe program can reach a node value or edge value
//! from two threads without the synchronisation that value's own type
//! provides". The type-level half (which types are Send / Sync) is decided by
//! the compiler in `progsweep::c16`; this engine watches the *library itself*:
//! keys, node values and edge values are instantiated with types that are
//! neither Send nor Sync and whose every trait method (Clone, Hash, Eq, Ord,
//! Display, Serialize, Deserialize, Drop) records the thread it runs on. A
//! single-threaded program then calls the whole container / node API on star
//! graphs of every size in a threshold family; a payload method running on any
//! other thread means the library moved or shared a payload across threads
//! behind the type system's back (an `unsafe impl`, a pointer smuggled into a
//! worker), which no Send / Sync obligation can reveal.

use crate::core::guarded;
use crate::report::*;
use crate::seqx::Out;
use serde_json::json;
use std::cell::Cell;
use std::marker::PhantomData;
use std::sync::atomic::{AtomicU64, Ordering};

thread_local! {
    static OWNER: Cell<bool> = const { Cell::new(false) };
}
static FOREIGN: AtomicU64 = AtomicU64::new(0);
static TOUCHES: AtomicU64 = AtomicU64::new(0);

fn touch() {
    TOUCHES.fetch_add(1, Ordering::Relaxed);
    if !OWNER.with(|o| o.get()) {
        FOREIGN.fetch_add(1, Ordering::Relaxed);
    }
}

type NotShareable = PhantomData<*const ()>;

macro_rules! payload {
    ($name:ident, $inner:ty) => {
        pub struct $name(pub $inner, NotShareable);
        impl $name {
            pub fn new(v: $inner) -> Self {
                $name(v, PhantomData)
            }
        }
        impl Clone for $name {
            fn clone(&self) -> Self {
                touch();
                $name(self.0, PhantomData)
            }
        }
        impl Drop for $name {
            fn drop(&mut self) {
                touch();
            }
        }
        impl PartialEq for $name {
            fn eq(&self, o: &Self) -> bool {
                touch();
                self.0 == o.0
            }
        }
        impl Eq for $name {}
        impl PartialOrd for $name {
            fn partial_cmp(&self, o: &Self) -> Option<std::cmp::Ordering> {
                touch();
                self.0.partial_cmp(&o.0)
            }
        }
        impl Ord for $name {
            fn cmp(&self, o: &Self) -> std::cmp::Ordering {
                touch();
                self.0.cmp(&o.0)
            }
        }
        impl std::hash::Hash for $name {
            fn hash<H: std::hash::Hasher>(&self, h: &mut H) {
                touch();
                self.0.hash(h)
            }
        }
        impl std::fmt::Display for $name {
            fn fmt(&self, f: &mut std::fmt::Formatter<'_>) -> std::fmt::Result {
                touch();
                write!(f, "{}", self.0)
            }
        }
        impl std::fmt::Debug for $name {
            fn fmt(&self, f: &mut std::fmt::Formatter<'_>) -> std::fmt::Result {
                touch();
                write!(f, "{}", self.0)
            }
        }
        impl serde::Serialize for $name {
            fn serialize<S: serde::Serializer>(&self, s: S) -> Result<S::Ok, S::Error> {
                touch();
                self.0.serialize(s)
            }
        }
        impl<'de> serde::Deserialize<'de> for $name {
            fn deserialize<D: serde::Deserializer<'de>>(d: D) -> Result<Self, D::Error> {
                touch();
                Ok($name(<$inner as serde::Deserialize>::deserialize(d)?, PhantomData))
            }
        }
    };
}

payload!(CK, u32);
payload!(CN, i32);
payload!(CE, i32);

/// Sizes of the star graphs: every size up to 40, then every power of two up
/// to `max` with its two neighbours.
pub fn sizes(max: usize) -> Vec<usize> {
    let mut v: Vec<usize> = (1..=40).collect();
    let mut p = 64usize;
    while p <= max {
        v.extend([p - 1, p, p + 1]);
        p *= 2;
    }
    v
}

/// Runs `f`, returns the number of payload methods that ran on a foreign
/// thread while it did.
fn watched(f: impl FnOnce()) -> Result<u64, crate::core::Fail> {
    let before = FOREIGN.load(Ordering::SeqCst);
    guarded(f)?;
    Ok(FOREIGN.load(Ordering::SeqCst) - before)
}

macro_rules! confine_flavour {
    ($fname:ident, $m:ident, $directed:tt, $dotattr:tt) => {
        pub fn $fname(d: usize, report: &mut dyn FnMut(&str, String)) -> u64 {
            use gdsl::$m::*;
            let attrs = |s: &str| Some(vec![("label".to_string(), s.to_string())]);
            let mut ops = 0u64;
            macro_rules! op {
                ($label:expr, $body:expr) => {{
                    ops += 1;
                    match watched(|| {
                        let _ = $body;
                    }) {
                        Ok(0) => {}
                        Ok(n) => report($label, format!("{} payload method call(s) ran on a thread other than the caller's during {}", n, $label)),
                        Err(f) => report(&format!("{}-{}", $label, f.kind()), format!("{} did not return: {}", $label, f.msg())),
                    }
                }};
            }
            let hub: Node<CK, CN, CE> = Node::new(CK::new(0), CN::new(0));
            let mut spokes: Vec<Node<CK, CN, CE>> = Vec::new();
            op!("build", {
                for i in 1..=d {
                    let s = Node::new(CK::new(i as u32), CN::new((i % 7) as i32));
                    hub.connect(&s, CE::new(i as i32));
                    if i % 2 == 0 {
                        s.connect(&hub, CE::new(-(i as i32)));
                    }
                    spokes.push(s);
                }
                hub.connect(&hub, CE::new(0));
            });
            let mut g: Graph<CK, CN, CE> = Graph::new();
            op!("insert", {
                g.insert(hub.clone());
                for s in &spokes {
                    g.insert(s.clone());
                }
            });
            let last = CK::new(d as u32);
            op!("to_dot", g.to_dot());
            confine_flavour!(@dot_attr $dotattr, g, attrs, op);
            op!("views", (g.len(), g.is_empty(), g.contains(&last), g.get(&last).is_some(), g.to_vec().len(), g.iter().count(), g.get(&last).map(|n| n.key().0), g.orphans().len()));
            confine_flavour!(@directed_views $directed, g, op);
            op!("json", {
                let s = serde_json::to_string(&g).expect("to json");
                let g2: Graph<CK, CN, CE> = serde_json::from_str(&s).expect("from json");
                g2.len()
            });
            op!("cbor", {
                let b = serde_cbor::to_vec(&g).expect("to cbor");
                let g2: Graph<CK, CN, CE> = serde_cbor::from_slice(&b).expect("from cbor");
                g2.len()
            });
            op!("bfs", (hub.bfs().target(&last).search_path().map(|p| p.len()), hub.bfs().target(&last).search().is_some(), hub.bfs().search_cycle().is_some(), spokes[d - 1].bfs().target(&CK::new(0)).search_path().is_some()));
            op!("dfs", (hub.dfs().target(&last).search_path().map(|p| p.len()), hub.dfs().target(&last).search().is_some(), hub.dfs().search_cycle().is_some()));
            op!("pfs", (hub.pfs().min().target(&last).search_path().map(|p| p.len()), hub.pfs().max().target(&last).search().is_some(), hub.pfs().min().search_cycle().is_some()));
            op!("traverse-with-closures", {
                let mut seen = 0usize;
                let _ = hub.bfs().for_each(&mut |_e| seen += 1).search_path();
                let _ = hub.dfs().filter(&mut |e| e.2 .0 % 3 != 0).search_path();
                let _ = hub.pfs().min().for_each(&mut |_e| seen += 1).search_path();
                seen
            });
            confine_flavour!(@orders $directed, hub, op);
            confine_flavour!(@node_queries $directed, hub, spokes, last, op);
            op!("sizeof", hub.sizeof());
            op!("compare", (hub < spokes[0], hub == spokes[0], hub.cmp(&spokes[d - 1]), spokes[0].value().0));
            op!("disconnect", (hub.disconnect(&last).is_ok(), hub.try_connect(&spokes[d - 1], CE::new(5)).is_ok(), hub.try_connect(&spokes[0], CE::new(5)).is_err()));
            op!("remove", g.remove(&last).is_some());
            op!("isolate", hub.isolate());
            op!("drop", {
                drop(g);
                drop(spokes);
                drop(hub);
            });
            // work the library may have handed to a detached thread shows up a little later
            op!("drop (deferred to another thread)", std::thread::sleep(std::time::Duration::from_millis(40)));
            ops
        }
    };
    (@dot_attr yes, $g:ident, $attrs:ident, $op:ident) => {
        $op!("to_dot_with_attr", $g.to_dot_with_attr(&|_g| $attrs("g"), &|n| $attrs(&format!("{}", n.key())), &|a, b, e| $attrs(&format!("{}{}{}", a.key(), b.key(), e))));
    };
    (@dot_attr no, $g:ident, $attrs:ident, $op:ident) => {
        let _ = &$attrs;
    };
    (@directed_views yes, $g:ident, $op:ident) => {
        $op!("roots-leaves-scc", ($g.roots().len(), $g.leaves().len(), $g.scc().len()));
    };
    (@directed_views no, $g:ident, $op:ident) => {};
    (@orders yes, $hub:ident, $op:ident) => {
        $op!("orderings", ($hub.preorder().search_nodes().len(), $hub.postorder().search_edges().len(), $hub.preorder().transpose().search_nodes().len(), $hub.bfs().transpose().search_path().is_some()));
    };
    (@orders no, $hub:ident, $op:ident) => {
        $op!("orderings", ($hub.order().pre().search_nodes().len(), $hub.order().post().search_edges().len()));
    };
    (@node_queries yes, $hub:ident, $spokes:ident, $last:ident, $op:ident) => {
        $op!("node-queries", ($hub.out_degree(), $hub.in_degree(), $hub.is_root(), $hub.is_leaf(), $hub.is_orphan(), $hub.is_connected(&$last), $hub.find_outbound(&$last).is_some(), $hub.find_inbound(&$last).is_some(), $hub.iter_out().count(), $hub.iter_in().count(), (&$hub).into_iter().count(), $spokes[0].iter_in().count()));
    };
    (@node_queries no, $hub:ident, $spokes:ident, $last:ident, $op:ident) => {
        $op!("node-queries", ($hub.degree(), $hub.is_orphan(), $hub.is_connected(&$last), $hub.find_adjacent(&$last).is_some(), $hub.iter().count(), (&$hub).into_iter().count(), $spokes[0].iter().count()));
    };
}

confine_flavour!(run_digraph, digraph, yes, yes);
confine_flavour!(run_sync_digraph, sync_digraph, yes, yes);
confine_flavour!(run_ungraph, ungraph, no, yes);
confine_flavour!(run_sync_ungraph, sync_ungraph, no, no);

fn run(flavour: &str, d: usize, report: &mut dyn FnMut(&str, String)) -> u64 {
    OWNER.with(|o| o.set(true));
    match flavour {
        "digraph" => run_digraph(d, report),
        "sync_digraph" => run_sync_digraph(d, report),
        "ungraph" => run_ungraph(d, report),
        "sync_ungraph" => run_sync_ungraph(d, report),
        other => panic!("GDSL_MC_HARNESS: unknown flavour {}", other),
    }
}

pub fn sweep(job: &Job, out: &mut Out) {
    let prop = job.property.as_str();
    let max = job.params.get("max").and_then(|v| v.as_u64()).unwrap_or(1024) as usize;
    let flavour = job.flavour.clone();
    for (i, d) in sizes(max).into_iter().enumerate() {
        if i % job.nshards != job.shard {
            continue;
        }
        crate::progress::set_case(|| json!({"kind":"confine","flavour":flavour,"size":d}).to_string());
        crate::progress::tick();
        let before = TOUCHES.load(Ordering::SeqCst);
        let mut found: Vec<(String, String)> = Vec::new();
        let ops = run(&flavour, d, &mut |label, what| found.push((label.to_string(), what)));
        out.stats.add("evaluations", ops);
        out.stats.add("nontrivial", ops);
        out.stats.inc("confinement_graphs");
        out.stats.max("confinement_max_nodes", d as u64 + 1);
        out.stats.add("payload_method_calls_watched", TOUCHES.load(Ordering::SeqCst) - before);
        for (label, what) in found {
            out.report(Violation {
                property: prop.into(),
                engine: "confine".into(),
                flavour: flavour.clone(),
                class: if label.contains('-') && (label.ends_with("-panic") || label.ends_with("-crash") || label.ends_with("-deadlock")) { format!("confine/{}", label) } else { "payload-on-foreign-thread".to_string() },
                what: format!("star graph with {} spokes, payload types that are neither Send nor Sync: {}", d, what),
                case: json!({"kind":"confine","flavour":flavour,"size":d}),
                order: d as u64,
            });
        }
    }
}

pub fn replay(prop: &str, case: &serde_json::Value) -> Vec<Violation> {
    let flavour = case["flavour"].as_str().unwrap_or("").to_string();
    let d = case["size"].as_u64().unwrap_or(1) as usize;
    let mut out = Out::new();
    let mut found: Vec<(String, String)> = Vec::new();
    run(&flavour, d, &mut |label, what| found.push((label.to_string(), what)));
    for (label, what) in found {
        println!("  {}: {}", label, what);
        out.report(Violation { property: prop.into(), engine: "confine".into(), flavour: flavour.clone(), class: if label.contains('-') && (label.ends_with("-panic") || label.ends_with("-crash") || label.ends_with("-deadlock")) { format!("confine/{}", label) } else { "payload-on-foreign-thread".to_string() }, what, case: case.clone(), order: d as u64 });
    }
    out.viols.into_values().collect()
}
