//! Very deep graphs (C04, C05, C06, C07, C09, C10): a corridor
//! 0 -> 1 -> .. -> n-1 with a few back edges i -> i-1, n around 1024, 2048, 4096 (and
//! 8192, 16384 in the thorough tier). The flavour adapters of the other
//! engines use `u8` keys, so their graphs stop at 256 nodes and a depth of 40;
//! a recursion-depth guard, an explicit stack that is resumed, a depth counter
//! of a narrow type only show beyond that. On a corridor every answer is
//! forced (one route, one depth-first order), so the oracle is exact without a
//! reference search. Runs on a thread with a large stack: the library's own
//! recursion depth is proportional to n.

use crate::core::guarded;
use crate::report::*;
use crate::seqx::Out;
use serde_json::json;

type Bad = (String, String);
fn bad<T>(code: &str, d: String) -> Result<T, Bad> {
    Err((code.to_string(), d))
}

pub fn sizes(tier: &str) -> Vec<usize> {
    let mut v = vec![255, 256, 257, 1023, 1024, 1025, 1026, 1027, 2049, 4097];
    if tier != "quick" {
        v.extend([8193, 16385]);
    }
    v
}

fn expect_chain(what: &str, got: &[u32], n: usize, reversed: bool) -> Result<(), Bad> {
    let ok = got.len() == n && got.iter().enumerate().all(|(i, k)| *k as usize == if reversed { n - 1 - i } else { i });
    if ok {
        Ok(())
    } else {
        let first_bad = got.iter().enumerate().find(|(i, k)| **k as usize != if reversed { n - 1 - i } else { *i }).map(|(i, k)| format!("position {} holds n{}", i, k)).unwrap_or_else(|| format!("{} entries", got.len()));
        bad(&format!("{}-wrong", what), format!("{} on the corridor of {} nodes must be the nodes in {} order ({} entries); got {} entries, {}", what, n, if reversed { "descending" } else { "ascending" }, n, got.len(), first_bad))
    }
}

macro_rules! deep_flavour {
    ($fname:ident, $m:ident, $directed:tt) => {
        pub fn $fname(prop: &str, n: usize, closing: bool) -> Result<u64, Bad> {
            use gdsl::$m::*;
            let mut evals = 0u64;
            let nodes: Vec<Node<u32, i32, i32>> = (0..n).map(|i| Node::new(i as u32, i as i32)).collect();
            let mut edges = 0usize;
            for i in 0..n - 1 {
                nodes[i].connect(&nodes[i + 1], 1);
                edges += 1;
            }
            for i in (5..n).filter(|i| i % 97 == 5) {
                nodes[i].connect(&nodes[i - 1], 0);
                edges += 1;
            }
            if closing {
                nodes[n - 1].connect(&nodes[0], 1);
                edges += 1;
            }
            let last = (n - 1) as u32;
            let keys = |p: &[Node<u32, i32, i32>]| -> Vec<u32> { p.iter().map(|x| *x.key()).collect() };
            macro_rules! path_ok {
                ($label:expr, $p:expr, $from:expr, $to:expr, $len:expr) => {{
                    evals += 1;
                    match $p {
                        None => return bad(&format!("{}-missed-target", $label), format!("{}: no path from n{} to n{} on the corridor of {} nodes", $label, $from, $to, n)),
                        Some(p) => {
                            let ks = keys(&p.to_vec_nodes());
                            if p.to_vec_edges().len() != $len || ks.first() != Some(&$from) || ks.last() != Some(&$to) {
                                return bad(&format!("{}-wrong-path", $label), format!("{}: path from n{} to n{} has {} edges (the only simple route has {}), starts at {:?}, ends at {:?}", $label, $from, $to, p.to_vec_edges().len(), $len, ks.first(), ks.last()));
                            }
                            let mut sorted = ks.clone();
                            sorted.sort();
                            sorted.dedup();
                            if sorted.len() != ks.len() {
                                return bad(&format!("{}-path-repeats-node", $label), format!("{}: the path visits a node twice", $label));
                            }
                        }
                    }
                }};
            }
            macro_rules! found_ok {
                ($label:expr, $r:expr, $to:expr) => {{
                    evals += 1;
                    match $r {
                        Some(x) if *x.key() == $to => {}
                        other => return bad(&format!("{}-missed-target", $label), format!("{}: search() for n{} on the corridor of {} nodes returned {:?}", $label, $to, n, other.map(|x| *x.key()))),
                    }
                }};
            }
            let skip_back = |e: &Edge<u32, i32, i32>| e.2 != 0;
            match prop {
                "C04" => {
                    path_ok!("bfs.search_path", nodes[0].bfs().target(&last).search_path(), 0u32, last, n - 1);
                    found_ok!("bfs.search", nodes[0].bfs().target(&last).search(), last);
                    path_ok!("bfs.filter.search_path", nodes[0].bfs().target(&last).filter(&mut |e| skip_back(e)).search_path(), 0u32, last, n - 1);
                    found_ok!("bfs.filter.search", nodes[0].bfs().target(&last).filter(&mut |e| skip_back(e)).search(), last);
                    deep_flavour!(@transposed $directed, bfs, nodes, last, n, path_ok, found_ok);
                }
                "C05" => {
                    path_ok!("dfs.search_path", nodes[0].dfs().target(&last).search_path(), 0u32, last, n - 1);
                    found_ok!("dfs.search", nodes[0].dfs().target(&last).search(), last);
                    path_ok!("dfs.filter.search_path", nodes[0].dfs().target(&last).filter(&mut |e| skip_back(e)).search_path(), 0u32, last, n - 1);
                    found_ok!("dfs.filter.search", nodes[0].dfs().target(&last).filter(&mut |e| skip_back(e)).search(), last);
                    deep_flavour!(@transposed $directed, dfs, nodes, last, n, path_ok, found_ok);
                }
                "C06" => {
                    path_ok!("pfs-min.search_path", nodes[0].pfs().min().target(&last).search_path(), 0u32, last, n - 1);
                    found_ok!("pfs-min.search", nodes[0].pfs().min().target(&last).search(), last);
                    path_ok!("pfs-max.search_path", nodes[0].pfs().max().target(&last).search_path(), 0u32, last, n - 1);
                    found_ok!("pfs-max.search", nodes[0].pfs().max().target(&last).search(), last);
                }
                "C07" => {
                    let want = deep_flavour!(@want $directed, edges);
                    macro_rules! count {
                        ($label:expr, $builder:expr, $term:ident) => {{
                            evals += 1;
                            let mut c = 0usize;
                            {
                                let mut f = |_e: &Edge<u32, i32, i32>| c += 1;
                                let mut b = $builder.for_each(&mut f);
                                let _ = b.$term();
                            }
                            if c != want {
                                return bad(&format!("{}-for_each-count", $label), format!("{}: for_each was called {} times on the corridor of {} nodes, which has {} edges leaving reachable nodes", $label, c, n, want));
                            }
                        }};
                    }
                    count!("bfs", nodes[0].bfs(), search_path);
                    count!("dfs", nodes[0].dfs(), search_path);
                    count!("dfs.search", nodes[0].dfs(), search);
                    count!("pfs-min", nodes[0].pfs().min(), search_path);
                    deep_flavour!(@count_orders $directed, nodes, count);
                }
                "C09" => {
                    deep_flavour!(@cycles $directed, nodes, n, closing, evals, keys);
                }
                "C10" => {
                    deep_flavour!(@orders $directed, nodes, n, evals, keys);
                }
                _ => {}
            }
            Ok(evals)
        }
    };
    (@want yes, $edges:ident) => {
        $edges
    };
    (@want no, $edges:ident) => {
        2 * $edges
    };
    (@transposed yes, $kind:ident, $nodes:ident, $last:ident, $n:ident, $path_ok:ident, $found_ok:ident) => {
        $path_ok!(concat!(stringify!($kind), ".transpose.search_path"), $nodes[$n - 1].$kind().transpose().target(&0).search_path(), $last, 0u32, $n - 1);
        $found_ok!(concat!(stringify!($kind), ".transpose.search"), $nodes[$n - 1].$kind().transpose().target(&0).search(), 0u32);
    };
    (@transposed no, $kind:ident, $nodes:ident, $last:ident, $n:ident, $path_ok:ident, $found_ok:ident) => {
        $path_ok!(concat!(stringify!($kind), ".from-the-far-end.search_path"), $nodes[$n - 1].$kind().target(&0).search_path(), $last, 0u32, $n - 1);
    };
    (@count_orders yes, $nodes:ident, $count:ident) => {
        $count!("preorder", $nodes[0].preorder(), search_nodes);
        $count!("postorder", $nodes[0].postorder(), search_nodes);
    };
    (@count_orders no, $nodes:ident, $count:ident) => {
        $count!("preorder", $nodes[0].order().pre(), search_nodes);
        $count!("postorder", $nodes[0].order().post(), search_nodes);
    };
    (@cycles yes, $nodes:ident, $n:ident, $closing:ident, $evals:ident, $keys:ident) => {
        for (label, r) in [("bfs.search_cycle", $nodes[0].bfs().search_cycle()), ("dfs.search_cycle", $nodes[0].dfs().search_cycle()), ("pfs-min.search_cycle", $nodes[0].pfs().min().search_cycle())] {
            $evals += 1;
            match (r, $closing) {
                (None, false) => {}
                (Some(p), true) => {
                    let ks = $keys(&p.to_vec_nodes());
                    if p.to_vec_edges().len() != $n || ks.first() != Some(&0) || ks.last() != Some(&0) {
                        return bad(&format!("{}-wrong-cycle", label), format!("{}: the only cycle through n0 has {} edges; got {} edges from {:?} to {:?}", label, $n, p.to_vec_edges().len(), ks.first(), ks.last()));
                    }
                }
                (None, true) => return bad(&format!("{}-missed-cycle", label), format!("{}: no cycle found on the closed corridor of {} nodes", label, $n)),
                (Some(p), false) => return bad(&format!("{}-found-absent-cycle", label), format!("{}: a cycle of {} edges through n0 was returned, but no edge enters n0", label, p.to_vec_edges().len())),
            }
        }
    };
    (@cycles no, $nodes:ident, $n:ident, $closing:ident, $evals:ident, $keys:ident) => {
        let _ = ($closing, &$keys);
        for (label, r) in [("bfs.search_cycle", $nodes[0].bfs().search_cycle()), ("dfs.search_cycle", $nodes[0].dfs().search_cycle())] {
            $evals += 1;
            if r.is_none() {
                return bad(&format!("{}-missed-cycle", label), format!("{}: the root has incident edges but no closed walk was returned ({} nodes)", label, $n));
            }
        }
    };
    (@orders yes, $nodes:ident, $n:ident, $evals:ident, $keys:ident) => {
        $evals += 4;
        expect_chain("preorder.search_nodes", &$keys(&$nodes[0].preorder().search_nodes()), $n, false)?;
        expect_chain("postorder.search_nodes", &$keys(&$nodes[0].postorder().search_nodes()), $n, true)?;
        expect_chain("preorder.transpose.search_nodes", &$keys(&$nodes[$n - 1].preorder().transpose().search_nodes()), $n, true)?;
        let pe: Vec<u32> = $nodes[0].postorder().search_edges().iter().map(|e| *e.1.key()).collect();
        let mut want: Vec<u32> = pe.clone();
        want.push(0);
        expect_chain("postorder.search_edges", &want, $n, true)?;
    };
    (@orders no, $nodes:ident, $n:ident, $evals:ident, $keys:ident) => {
        $evals += 2;
        expect_chain("preorder.search_nodes", &$keys(&$nodes[0].order().pre().search_nodes()), $n, false)?;
        expect_chain("postorder.search_nodes", &$keys(&$nodes[0].order().post().search_nodes()), $n, true)?;
    };
}

deep_flavour!(run_digraph, digraph, yes);
deep_flavour!(run_sync_digraph, sync_digraph, yes);
deep_flavour!(run_ungraph, ungraph, no);
deep_flavour!(run_sync_ungraph, sync_ungraph, no);

/// One case on a thread with a 2 GiB stack (reserved, not committed).
fn run(flavour: &str, prop: &str, n: usize, closing: bool) -> Result<u64, Bad> {
    let (f, p) = (flavour.to_string(), prop.to_string());
    let h = std::thread::Builder::new()
        .stack_size(2usize << 30)
        .spawn(move || {
            let r = guarded(|| match f.as_str() {
                "digraph" => run_digraph(&p, n, closing),
                "sync_digraph" => run_sync_digraph(&p, n, closing),
                "ungraph" => run_ungraph(&p, n, closing),
                "sync_ungraph" => run_sync_ungraph(&p, n, closing),
                other => panic!("GDSL_MC_HARNESS: unknown flavour {}", other),
            });
            match r {
                Ok(x) => x,
                Err(fail) => Err((format!("deep/{}", fail.kind()), format!("did not return: {}", fail.msg()))),
            }
        })
        .expect("spawn deep-chain thread");
    match h.join() {
        Ok(r) => r,
        Err(_) => Err(("deep/panic".into(), "the deep-chain thread panicked".into())),
    }
}

pub fn sweep(job: &Job, out: &mut Out) {
    let prop = job.property.as_str();
    let flavour = job.flavour.clone();
    let mut i = 0usize;
    for n in sizes(&job.tier) {
        for closing in [false, true] {
            i += 1;
            if i % job.nshards != job.shard {
                continue;
            }
            if closing && prop != "C09" && prop != "C10" {
                continue;
            }
            crate::progress::set_case(|| json!({"kind":"deepchain","flavour":flavour,"n":n,"closing":closing}).to_string());
            crate::progress::tick();
            match run(&flavour, prop, n, closing) {
                Ok(e) => {
                    out.stats.add("evaluations", e);
                    out.stats.add("nontrivial", e);
                    out.stats.inc("deep_corridors");
                    out.stats.max("deep_corridor_max_nodes", n as u64);
                }
                Err((class, what)) => out.report(Violation {
                    property: prop.into(),
                    engine: "deepchain".into(),
                    flavour: flavour.clone(),
                    class: format!("deepchain/{}", class),
                    what: format!("corridor 0->1->..->{} with a back edge i->i-1 at every i = 5 mod 97{}: {}", n - 1, if closing { " and the closing edge to n0" } else { "" }, what),
                    case: json!({"kind":"deepchain","flavour":flavour,"n":n,"closing":closing}),
                    order: n as u64,
                }),
            }
        }
    }
}

pub fn replay(prop: &str, case: &serde_json::Value) -> Vec<Violation> {
    let flavour = case["flavour"].as_str().unwrap_or("").to_string();
    let n = case["n"].as_u64().unwrap_or(2) as usize;
    let closing = case["closing"].as_bool().unwrap_or(false);
    let mut out = Out::new();
    if let Err((class, what)) = run(&flavour, prop, n, closing) {
        println!("  {}", what);
        out.report(Violation { property: prop.into(), engine: "deepchain".into(), flavour, class: format!("deepchain/{}", class), what, case: case.clone(), order: n as u64 });
    }
    out.viols.into_values().collect()
}
