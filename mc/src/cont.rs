//! C18: the Graph containers are faithful key -> node maps. Explicit-state
//! exploration of container-call histories interleaved with edge operations
//! on members and non-members, compared call by call with a map model plus
//! the reference graph; DOT exports parsed and compared statement by statement.

use crate::core::*;
use crate::csweep::set_seed;
use crate::flavor::*;
use crate::model::{check_contract, Bad};
use crate::report::*;
use crate::seqx::Out;
use serde::{Deserialize, Serialize};
use serde_json::{json, Value};
use std::collections::{BTreeMap, BTreeSet, HashMap};

fn bad<T>(code: &str, detail: String) -> Result<T, Bad> {
    Err((code.to_string(), detail))
}

/// Objects: 0,1,2 = the graph nodes (keys 0,1,2; value key*10); 3,4 = impostors
/// with keys 0,1 and value key*10+5 that never take part in edges.
pub const NOBJ: usize = 5;
pub fn obj_key(o: usize) -> K {
    (if o < 3 { o } else { o - 3 }) as K
}
pub fn obj_val(o: usize) -> i8 {
    obj_key(o) as i8 * 10 + if o < 3 { 0 } else { 5 }
}

#[derive(Clone, Copy, Debug, PartialEq, Eq, Hash, Serialize, Deserialize, PartialOrd, Ord)]
pub enum COp {
    Insert(usize),
    Remove(K),
    /// edge operation on the graph nodes 0..3; the handle of a node that is
    /// the member for its key is taken from the container (get / index
    /// alternating), otherwise the program's own handle is used
    Edge(Op),
}

impl COp {
    pub fn show(&self) -> String {
        match self {
            COp::Insert(o) => format!("g.insert(node{}(key {}, value {}))", o, obj_key(*o), obj_val(*o)),
            COp::Remove(k) => format!("g.remove(&{})", k),
            COp::Edge(op) => format!("{} [through container handles where member]", op.show()),
        }
    }
}

pub fn c_alphabet() -> Vec<COp> {
    let mut a = Vec::new();
    for o in 0..NOBJ {
        a.push(COp::Insert(o));
    }
    for k in 0..3 {
        a.push(COp::Remove(k));
    }
    for op in crate::seqx::alphabet(3, 1) {
        a.push(COp::Edge(op));
    }
    a
}

pub struct CWorld<F: Fl> {
    /// the program's own handles; in `container_owned` mode the handle of an
    /// object is dropped while the object is a member (the container then holds
    /// the only strong handle) and taken back from `remove`
    pub objs: Vec<Option<F::Node>>,
    pub container_owned: bool,
    pub g: F::Graph,
    /// model: key -> object
    pub members: BTreeMap<K, usize>,
    pub flip: bool,
}

#[derive(Clone, Debug, PartialEq, Eq, Hash, Serialize, Deserialize)]
pub struct CState {
    pub members: Vec<(K, usize)>,
    pub adj: WorldObs,
}

impl<F: Fl> CWorld<F> {
    pub fn new(seed: u64, ctor: u8) -> Self {
        let container_owned = ctor >= 10;
        let ctor = ctor % 10;
        if F::SYNC {
            ensure_monitor();
        }
        set_seed(Some(seed));
        let g = match ctor {
            1 => F::g_default(),
            2 => F::g_with_capacity(1).unwrap_or_else(F::g_new),
            _ => F::g_new(),
        };
        set_seed(None);
        CWorld { objs: (0..NOBJ).map(|o| Some(F::node(obj_key(o), Val::new(obj_val(o))))).collect(), container_owned, g, members: BTreeMap::new(), flip: false }
    }
    /// Some handle of object `o`: the program's own, or the container's when the program holds none.
    fn h(&self, o: usize) -> F::Node {
        match &self.objs[o] {
            Some(n) => n.clone(),
            None => F::g_get(&self.g, obj_key(o)).expect("object is neither held nor a member"),
        }
    }
    fn adj_world(&self) -> World<F> {
        World { nodes: (0..3).map(|o| self.h(o)).collect() }
    }
    pub fn state(&self) -> CState {
        CState { members: self.members.iter().map(|(k, o)| (*k, *o)).collect(), adj: self.adj_world().observe_raw() }
    }
    /// Handle of graph node `o` as the program would obtain it.
    fn handle(&mut self, o: usize) -> F::Node {
        if self.members.get(&obj_key(o)) == Some(&o) {
            self.flip = !self.flip;
            if self.flip {
                F::g_get(&self.g, obj_key(o)).expect("member")
            } else {
                F::g_index(&self.g, obj_key(o))
            }
        } else {
            self.h(o)
        }
    }

    /// Apply one call to the implementation and to the model; compare the return value.
    pub fn apply(&mut self, op: &COp) -> Result<(), Bad> {
        match *op {
            COp::Insert(o) => {
                let pre = self.adj_world().observe_raw();
                let handle = self.h(o);
                let r = F::g_insert(&mut self.g, handle);
                let exp = !self.members.contains_key(&obj_key(o));
                if exp {
                    self.members.insert(obj_key(o), o);
                    if self.container_owned && r {
                        // from now on the container holds the only strong handle
                        self.objs[o] = None;
                    }
                }
                if r != exp {
                    return bad("insert/return", format!("{} returned {}, key present before: {}", op.show(), r, !exp));
                }
                if self.adj_world().observe_raw() != pre {
                    return bad("insert/changed-edges", format!("{} changed the adjacency of the graph nodes", op.show()));
                }
            }
            COp::Remove(k) => {
                let pre = self.adj_world().observe_raw();
                let r = F::g_remove(&mut self.g, k);
                let exp = self.members.remove(&k);
                match (&r, exp) {
                    (None, None) => {}
                    (Some(n), Some(o)) if F::key(n) == k && F::pval(n) == obj_val(o) => {
                        if self.objs[o].is_none() {
                            self.objs[o] = r.clone();
                        }
                    }
                    _ => return bad("remove/return", format!("{} returned {:?}, model expected object {:?}", op.show(), r.as_ref().map(|n| (F::key(n), F::pval(n))), exp)),
                }
                if self.adj_world().observe_raw() != pre {
                    return bad("remove/changed-edges", format!("{} changed the adjacency of the graph nodes: {:?} -> {:?}", op.show(), pre, self.adj_world().observe_raw()));
                }
            }
            COp::Edge(e) => {
                let pre = self.adj_world().observe_raw();
                let ret = match e {
                    Op::Connect(u, v, x) => {
                        let (a, b) = (self.handle(u as usize), self.handle(v as usize));
                        F::connect(&a, &b, x);
                        Ret::Unit
                    }
                    Op::TryConnect(u, v, x) => {
                        let (a, b) = (self.handle(u as usize), self.handle(v as usize));
                        Ret::Res(F::try_connect(&a, &b, x))
                    }
                    Op::Disconnect(u, v) => {
                        let a = self.handle(u as usize);
                        Ret::Val(F::disconnect(&a, v))
                    }
                    Op::Isolate(u) => {
                        let a = self.handle(u as usize);
                        F::isolate(&a);
                        Ret::Unit
                    }
                };
                // observed through the program's own handles: the container
                // must have handed out the inserted nodes themselves
                let post = self.adj_world().observe_raw();
                check_contract(F::DIRECTED, &pre, &e, &ret, &post).map_err(|(c, d)| (format!("edge-through-container-handle/{}", c), d))?;
            }
        }
        Ok(())
    }

    /// Compare every view of the container with the model.
    pub fn check_views(&self) -> Result<(), Bad> {
        let g = &self.g;
        let exp_len = self.members.len();
        if F::g_len(g) != exp_len {
            return bad("len", format!("len() = {}, {} members expected", F::g_len(g), exp_len));
        }
        if F::g_is_empty(g) != (exp_len == 0) {
            return bad("is_empty", format!("is_empty() = {} with {} members", F::g_is_empty(g), exp_len));
        }
        let ident = |n: &F::Node| (F::key(n), F::pval(n));
        for k in 0..4 as K {
            let exp = self.members.get(&k).map(|o| (obj_key(*o), obj_val(*o)));
            if F::g_contains(g, k) != exp.is_some() {
                return bad("contains", format!("contains({}) = {}, model {:?}", k, F::g_contains(g, k), exp));
            }
            let got = F::g_get(g, k).as_ref().map(ident);
            if got != exp {
                return bad("get", format!("get({}) = {:?}, model {:?}", k, got, exp));
            }
            if let Some(e) = exp {
                let i = ident(&F::g_index(g, k));
                if i != e {
                    return bad("index", format!("g[{}] = {:?}, model {:?}", k, i, e));
                }
                if let Some(n) = F::g_index_ref(g, k) {
                    if ident(&n) != e {
                        return bad("index-ref", format!("g[&{}] = {:?}, model {:?}", k, ident(&n), e));
                    }
                }
            }
        }
        let exp_set: BTreeSet<(K, i8)> = self.members.values().map(|o| (obj_key(*o), obj_val(*o))).collect();
        let tv = F::g_to_vec(g);
        if tv.len() != exp_len || tv.iter().map(ident).collect::<BTreeSet<_>>() != exp_set {
            return bad("to_vec", format!("to_vec() = {:?}, members {:?}", tv.iter().map(ident).collect::<Vec<_>>(), exp_set));
        }
        let it = F::g_iter(g);
        if it.len() != exp_len || it.iter().any(|(k, n)| *k != F::key(n)) || it.iter().map(|(_, n)| ident(n)).collect::<BTreeSet<_>>() != exp_set {
            return bad("iter", format!("iter() = {:?}, members {:?}", it.iter().map(|(k, n)| (*k, ident(n))).collect::<Vec<_>>(), exp_set));
        }
        // roots / leaves / orphans from the reference adjacency (observed through the program's handles)
        let adj = self.adj_world().observe_raw();
        let has_out = |o: usize| o < 3 && !adj[o].out.is_empty();
        let has_in = |o: usize| o < 3 && if F::DIRECTED { !adj[o].inn.is_empty() } else { !adj[o].out.is_empty() };
        let sel = |f: &dyn Fn(usize) -> bool| -> BTreeSet<(K, i8)> { self.members.values().filter(|o| f(**o)).map(|o| (obj_key(*o), obj_val(*o))).collect() };
        let as_set = |v: Vec<F::Node>| -> (usize, BTreeSet<(K, i8)>) { (v.len(), v.iter().map(ident).collect()) };
        if let Some(r) = F::g_roots(g) {
            let e = sel(&|o| !has_in(o));
            let (n, s) = as_set(r);
            if s != e || n != e.len() {
                return bad("roots", format!("roots() = {:?}, members without incoming edges {:?}", s, e));
            }
        }
        if let Some(r) = F::g_leaves(g) {
            let e = sel(&|o| !has_out(o));
            let (n, s) = as_set(r);
            if s != e || n != e.len() {
                return bad("leaves", format!("leaves() = {:?}, members without outgoing edges {:?}", s, e));
            }
        }
        let e = sel(&|o| !has_out(o) && !has_in(o));
        let (n, s) = as_set(F::g_orphans(g));
        if s != e || n != e.len() {
            return bad("orphans", format!("orphans() = {:?}, members without any edge {:?}", s, e));
        }
        Ok(())
    }

    /// Edges obtained by iterating the members (`for e in &node`).
    fn iterated_edges(&self) -> Vec<(K, K, E)> {
        let mut v = Vec::new();
        for o in self.members.values() {
            for e in F::edges_into_iter(&self.h(*o)) {
                v.push(F::edge_accessors(&e));
            }
        }
        v
    }

    pub fn check_dot_plain(&self) -> Result<(), Bad> {
        let txt = F::g_to_dot(&self.g);
        let stmts = dot_statements(&txt)?;
        let mut exp: Vec<String> = self.members.keys().map(|k| format!("{}", k)).collect();
        exp.extend(self.iterated_edges().iter().map(|(u, v, _)| format!("{} -> {}", u, v)));
        let mut got = stmts.clone();
        got.sort();
        exp.sort();
        if got != exp {
            return bad("to_dot", format!("to_dot() statements {:?}, expected {:?}; text {:?}", got, exp, txt));
        }
        Ok(())
    }

    /// `combo` selects what each of the three callbacks returns: 0 None, 1 Some([]), 2 one attribute, 3 two attributes;
    /// 4 and 5 depend on the item the callback is asked about (node key / source + target + value of the edge):
    /// 4 = two attributes for even items and None for odd ones, 5 = None for even items and one attribute for odd ones.
    pub fn check_dot_attr(&self, combo: (u8, u8, u8)) -> Result<bool, Bad> {
        let mk = |sel: u8, tag: String, idx: i64| -> Attrs {
            let sel = match (sel, idx.rem_euclid(2) == 0) {
                (4, true) => 3,
                (4, false) => 0,
                (5, true) => 0,
                (5, false) => 2,
                (s, _) => s,
            };
            match sel {
                0 => None,
                1 => Some(vec![]),
                2 => Some(vec![("a".to_string(), tag)]),
                // (the second value carries a Graphviz escape sequence: values must reach the text verbatim)
                // (and a third one is blank - the usual way to suppress a label - and must still be written)
                _ => Some(vec![("a".to_string(), tag.clone()), ("b".to_string(), format!("{}\\lx", tag)), ("c".to_string(), if idx.rem_euclid(4) < 2 { String::new() } else { " ".to_string() })]),
            }
        };
        let fmt = |a: &Attrs| -> String {
            match a {
                None => String::new(),
                Some(v) => format!(" {}", v.iter().map(|(k, x)| format!("[{}=\"{}\"]", k, x)).collect::<String>()),
            }
        };
        let txt = match F::g_to_dot_attr(&self.g, &|| mk(combo.0, "g".into(), 0), &|k| mk(combo.1, format!("n{}", k), k as i64), &|u, v, e| mk(combo.2, format!("e{}_{}_{}", u, v, e), u as i64 + v as i64 + e as i64)) {
            Some(t) => t,
            None => return Ok(false),
        };
        let stmts = dot_statements(&txt)?;
        let mut exp: Vec<String> = Vec::new();
        if let Some(ga) = mk(combo.0, "g".into(), 0) {
            for (k, v) in ga {
                exp.push(format!("{}=\"{}\"", k, v));
            }
        }
        for k in self.members.keys() {
            exp.push(format!("{}{}", k, fmt(&mk(combo.1, format!("n{}", k), *k as i64))).trim().to_string());
        }
        for (u, v, e) in self.iterated_edges() {
            exp.push(format!("{} -> {}{}", u, v, fmt(&mk(combo.2, format!("e{}_{}_{}", u, v, e), u as i64 + v as i64 + e as i64))).trim().to_string());
        }
        let mut got = stmts;
        got.sort();
        exp.sort();
        if got != exp {
            return bad("to_dot_with_attr", format!("callbacks {:?}: statements {:?}, expected {:?}; text {:?}", combo, got, exp, txt));
        }
        Ok(true)
    }
}

/// Split a DOT text into its statements (one per line), checking the frame.
pub fn dot_statements(txt: &str) -> Result<Vec<String>, Bad> {
    let lines: Vec<&str> = txt.lines().collect();
    if lines.first().map(|l| l.trim()) != Some("digraph {") || lines.last().map(|l| l.trim()) != Some("}") {
        return bad("dot-frame", format!("not framed by 'digraph {{' ... '}}': {:?}", txt));
    }
    Ok(lines[1..lines.len() - 1].iter().map(|l| l.trim().to_string()).filter(|l| !l.is_empty()).collect())
}

#[derive(Serialize, Deserialize, Clone, Debug)]
pub struct ContParams {
    pub max_edges: usize,
    pub max_depth: usize,
    pub seeds: Vec<u64>,
    pub dot_attr_max_edges: usize,
    /// the program keeps no handle of its own to members (the container owns them)
    #[serde(default)]
    pub container_owned: bool,
}

fn build<F: Fl>(h: &[COp], seed: u64, ctor: u8) -> Result<CWorld<F>, (usize, String, String)> {
    let mut w = CWorld::<F>::new(seed, ctor);
    for (i, op) in h.iter().enumerate() {
        match guarded(|| w.apply(op)) {
            Ok(Ok(())) => {}
            Ok(Err((c, d))) => return Err((i, c, d)),
            Err(f) => return Err((i, format!("{}/{}", op_kind(op), f.kind()), f.msg().to_string())),
        }
    }
    Ok(w)
}

fn op_kind(op: &COp) -> &'static str {
    match op {
        COp::Insert(_) => "insert",
        COp::Remove(_) => "remove",
        COp::Edge(e) => e.name(),
    }
}

fn show_hist(h: &[COp]) -> String {
    h.iter().map(|o| o.show()).collect::<Vec<_>>().join("; ")
}

/// Check one history end to end (used by the explorer for the last step and by replay).
pub fn check_history<F: Fl>(h: &[COp], seed: u64, ctor: u8, dot_attr: bool) -> Result<CState, (String, String)> {
    let w = match build::<F>(h, seed, ctor) {
        Ok(w) => w,
        Err((i, c, d)) => return Err((c, format!("step {} of [{}]: {}", i, show_hist(h), d))),
    };
    let r = guarded(|| -> Result<(), Bad> {
        w.check_views()?;
        w.check_dot_plain()?;
        if dot_attr {
            for a in 0..4 {
                for b in 0..6 {
                    for c in 0..6 {
                        w.check_dot_attr((a, b, c))?;
                    }
                }
            }
        }
        Ok(())
    });
    match r {
        Ok(Ok(())) => {}
        Ok(Err((c, d))) => return Err((format!("view/{}", c), format!("after [{}] (hash seed {}): {}", show_hist(h), seed, d))),
        Err(f) => return Err((format!("view/{}", f.kind()), format!("after [{}]: {}", show_hist(h), f.msg()))),
    }
    // the same history once more on a fresh container, this time with every
    // view and the DOT export called after EVERY step: a view that keeps
    // something from one call to the next (a cached list, a memoised export)
    // must still follow the mutations in between
    if h.len() >= 2 {
        let mut w2 = CWorld::<F>::new(seed, ctor);
        for (i, op) in h.iter().enumerate() {
            let r = guarded(|| -> Result<(), Bad> {
                w2.apply(op)?;
                w2.check_views()?;
                w2.check_dot_plain()
            });
            match r {
                Ok(Ok(())) => {}
                Ok(Err((c, d))) => return Err((format!("view-interleaved/{}", c), format!("[{}] with every view called after every step, after step {} (hash seed {}): {}", show_hist(h), i, seed, d))),
                Err(f) => return Err((format!("view-interleaved/{}", f.kind()), format!("[{}] with every view called after every step, step {}: {}", show_hist(h), i, f.msg()))),
            }
        }
    }
    Ok(w.state())
}

/// Containers with many keys (hash-map growth, thresholds): chains of k nodes,
/// all inserted, every view checked, then every key removed in turn.
pub fn many_keys<F: Fl>(job: &Job, kmax: usize, out: &mut Out) {
    let prop = job.property.as_str();
    for k in 1..=kmax {
        for seed in [0u64, 1] {
            crate::progress::set_case(|| json!({"kind":"cont-many","flavour":F::NAME,"k":k,"seed":seed}).to_string());
            out.stats.inc("evaluations");
            out.stats.inc("states");
            out.stats.inc("transitions");
            if k >= 17 {
                out.stats.inc("nontrivial");
            }
            if let Err((code, what)) = check_many::<F>(k, seed) {
                out.report(Violation {
                    property: prop.into(),
                    engine: "cont".into(),
                    flavour: F::NAME.into(),
                    class: format!("many-keys/{}", code),
                    what: format!("chain of {} nodes in a container (hash seed {}): {}", k, seed, what),
                    case: json!({"kind":"cont-many","flavour":F::NAME,"k":k,"seed":seed}),
                    order: k as u64,
                });
            }
        }
    }
}

pub fn check_many<F: Fl>(k: usize, seed: u64) -> Result<(), Bad> {
    let r = guarded(|| -> Result<(), Bad> {
        if F::SYNC {
            ensure_monitor();
        }
        let nodes: Vec<F::Node> = (0..k).map(|i| F::node(i as K, Val::new(default_val(i as K)))).collect();
        for i in 0..k.saturating_sub(1) {
            F::connect(&nodes[i], &nodes[i + 1], (i % 100) as E);
        }
        set_seed(Some(seed));
        let mut g = F::g_new();
        set_seed(None);
        for (i, nd) in nodes.iter().enumerate() {
            if !F::g_insert(&mut g, nd.clone()) {
                return bad("insert-refused", format!("insert of fresh key {} refused", i));
            }
            if F::g_len(&g) != i + 1 {
                return bad("len", format!("len() = {} after {} inserts", F::g_len(&g), i + 1));
            }
        }
        let mut members: BTreeSet<K> = (0..k as K).collect();
        let keys = |v: Vec<F::Node>| -> (usize, BTreeSet<K>) { (v.len(), v.iter().map(F::key).collect()) };
        for step in 0..=k {
            // views
            if F::g_len(&g) != members.len() || F::g_is_empty(&g) != members.is_empty() {
                return bad("len", format!("len() = {} with {} members", F::g_len(&g), members.len()));
            }
            for i in 0..=k as K {
                let m = members.contains(&i);
                if F::g_contains(&g, i) != m {
                    return bad("contains", format!("contains({}) = {}", i, !m));
                }
                match F::g_get(&g, i) {
                    Some(n) if m && F::key(&n) == i && F::pval(&n) == default_val(i) => {
                        if F::key(&F::g_index(&g, i)) != i {
                            return bad("index", format!("g[{}] has another key", i));
                        }
                    }
                    None if !m => {}
                    other => return bad("get", format!("get({}) = {:?}, member: {}", i, other.map(|n| F::key(&n)), m)),
                }
            }
            let (n1, s1) = keys(F::g_to_vec(&g));
            if n1 != members.len() || s1 != members {
                return bad("to_vec", format!("to_vec() has {} nodes {:?}, members {:?}", n1, s1, members));
            }
            let it = F::g_iter(&g);
            if it.len() != members.len() || it.iter().any(|(kk, n)| *kk != F::key(n)) || it.iter().map(|(kk, _)| *kk).collect::<BTreeSet<K>>() != members {
                return bad("iter", "iter() does not list exactly the members".to_string());
            }
            // chain i -> i+1: node i has an incoming edge iff i >= 1, an outgoing one iff i + 1 < k
            let has_in = |i: K| if F::DIRECTED { i >= 1 } else { k >= 2 };
            let has_out = |i: K| if F::DIRECTED { (i as usize) + 1 < k } else { k >= 2 };
            if let Some(r) = F::g_roots(&g) {
                let e: BTreeSet<K> = members.iter().cloned().filter(|i| !has_in(*i)).collect();
                let (n, s) = keys(r);
                if s != e || n != e.len() {
                    return bad("roots", format!("roots() = {:?}, expected {:?}", s, e));
                }
            }
            if let Some(r) = F::g_leaves(&g) {
                let e: BTreeSet<K> = members.iter().cloned().filter(|i| !has_out(*i)).collect();
                let (n, s) = keys(r);
                if s != e || n != e.len() {
                    return bad("leaves", format!("leaves() = {:?}, expected {:?}", s, e));
                }
            }
            let e: BTreeSet<K> = members.iter().cloned().filter(|i| !has_in(*i) && !has_out(*i)).collect();
            let (n, s) = keys(F::g_orphans(&g));
            if s != e || n != e.len() {
                return bad("orphans", format!("orphans() = {:?}, expected {:?}", s, e));
            }
            // DOT: one node statement per member, one edge statement per iterated edge
            let stmts = dot_statements(&F::g_to_dot(&g))?;
            let mut exp: Vec<String> = members.iter().map(|i| format!("{}", i)).collect();
            for i in &members {
                for e in F::edges_into_iter(&nodes[*i as usize]) {
                    let a = F::edge_accessors(&e);
                    exp.push(format!("{} -> {}", a.0, a.1));
                }
            }
            let mut got = stmts;
            got.sort();
            exp.sort();
            if got != exp {
                return bad("to_dot", format!("to_dot() has {} statements, expected {}", got.len(), exp.len()));
            }
            if let Some(txt) = F::g_to_dot_attr(&g, &|| None, &|i| Some(vec![("l".to_string(), format!("n{}", i))]), &|_, _, _| None) {
                let n_attr = dot_statements(&txt)?.iter().filter(|l| l.contains("[l=")).count();
                if n_attr != members.len() {
                    return bad("to_dot_with_attr", format!("{} node statements carry the attribute, {} members", n_attr, members.len()));
                }
            }
            // remove the next key (middle-out order)
            if step < k {
                let victim = ((step * 7) % k) as K;
                let victim = if members.contains(&victim) { victim } else { *members.iter().next().unwrap() };
                match F::g_remove(&mut g, victim) {
                    Some(n) if F::key(&n) == victim => {}
                    other => return bad("remove", format!("remove({}) = {:?}", victim, other.map(|n| F::key(&n)))),
                }
                members.remove(&victim);
                if F::g_remove(&mut g, victim).is_some() {
                    return bad("remove-twice", format!("second remove({}) returned a node", victim));
                }
            }
        }
        Ok(())
    });
    match r {
        Ok(x) => x,
        Err(f) => bad(f.kind(), f.msg().to_string()),
    }
}

pub fn explore<F: Fl>(job: &Job, out: &mut Out) {
    if let Some(k) = job.params.get("many").and_then(|v| v.as_u64()) {
        return many_keys::<F>(job, k as usize, out);
    }
    let p: ContParams = serde_json::from_value(job.params.clone()).expect("cont params");
    let prop = job.property.as_str();
    let alpha = c_alphabet();
    let mut index: HashMap<CState, usize> = HashMap::new();
    let mut hist: Vec<Vec<COp>> = vec![vec![]];
    let report = |out: &mut Out, class: String, what: String, h: &[COp], seed: u64, ctor: u8| {
        out.report(Violation {
            property: prop.into(),
            engine: "cont".into(),
            flavour: F::NAME.into(),
            class,
            what,
            case: json!({"kind":"cont","flavour":F::NAME,"history":h,"seed":seed,"ctor":ctor,"program":show_hist(h)}),
            order: h.len() as u64,
        });
    };
    let own: u8 = if p.container_owned { 10 } else { 0 };
    // the three constructors give the same empty container
    for ctor in 0..3u8 {
        out.stats.inc("evaluations");
        if let Err((c, w)) = check_history::<F>(&[], p.seeds[0], ctor, true) {
            report(out, c, w, &[], p.seeds[0], ctor);
        }
    }
    match check_history::<F>(&[], p.seeds[0], own, false) {
        Ok(s) => {
            index.insert(s, 0);
        }
        Err(_) => return,
    }
    let mut cur = 0;
    while cur < hist.len() {
        let h = hist[cur].clone();
        cur += 1;
        crate::progress::set_case(|| json!({"kind":"cont","flavour":F::NAME,"history":h,"seed":p.seeds[0],"ctor":own}).to_string());
        out.stats.inc("states");
        out.stats.max("max_depth", h.len() as u64);
        if h.len() >= p.max_depth {
            continue;
        }
        for op in &alpha {
            let mut nh = h.clone();
            nh.push(*op);
            crate::progress::tick();
            let mut first: Option<CState> = None;
            let mut failed = false;
            for (si, seed) in p.seeds.iter().enumerate() {
                out.stats.inc("transitions");
                out.stats.inc("evaluations");
                if !matches!(op, COp::Edge(Op::Connect(..))) {
                    out.stats.inc("nontrivial");
                }
                // attribute combinations on small states, first seed only
                let small = live_edges_of(&nh) <= p.dot_attr_max_edges && si == 0;
                match check_history::<F>(&nh, *seed, own, small) {
                    Ok(s) => {
                        if first.is_none() {
                            first = Some(s);
                        }
                    }
                    Err((c, w)) => {
                        report(out, c, w, &nh, *seed, own);
                        failed = true;
                        break;
                    }
                }
            }
            if failed {
                continue;
            }
            let s = first.unwrap();
            if live_edges(F::DIRECTED, &s.adj) > p.max_edges {
                continue;
            }
            out.stats.outcome(format!("{:?}", s.members));
            if !index.contains_key(&s) {
                index.insert(s, hist.len());
                if out.stats.samples.len() < 3 && nh.len() == 3 {
                    out.stats.sample(json!({"history": show_hist(&nh), "flavour": F::NAME}));
                }
                hist.push(nh);
            }
        }
    }
}

fn live_edges_of(h: &[COp]) -> usize {
    h.iter().filter(|o| matches!(o, COp::Edge(Op::Connect(..)) | COp::Edge(Op::TryConnect(..)))).count()
}

pub fn replay<F: Fl>(prop: &str, case: &Value) -> Vec<Violation> {
    let mut out = Out::new();
    if case["kind"] == "cont-many" {
        let (k, seed) = (case["k"].as_u64().unwrap() as usize, case["seed"].as_u64().unwrap());
        if let Err((code, what)) = check_many::<F>(k, seed) {
            out.report(Violation { property: prop.into(), engine: "cont".into(), flavour: F::NAME.into(), class: format!("many-keys/{}", code), what, case: case.clone(), order: 0 });
        }
        return out.viols.into_values().collect();
    }
    let h: Vec<COp> = serde_json::from_value(case["history"].clone()).expect("history");
    let seed = case["seed"].as_u64().unwrap_or(0);
    let ctor = case["ctor"].as_u64().unwrap_or(0) as u8;
    println!("  program: {}", show_hist(&h));
    if let Err((class, what)) = check_history::<F>(&h, seed, ctor, true) {
        out.report(Violation { property: prop.into(), engine: "cont".into(), flavour: F::NAME.into(), class, what, case: case.clone(), order: 0 });
    }
    out.viols.into_values().collect()
}
