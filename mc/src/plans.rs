//! Which jobs make up each property check at each tier, and dispatch of
//! worker jobs and replays to the engines.

use crate::report::*;
use crate::seqx;
use crate::gsweep;
use crate::csweep;
use crate::sched;
use crate::lockstep;
use crate::progsweep;
use crate::docsweep;
use crate::cont;
use crate::drops;
use crate::loopx;
use crate::seqx::Out;
use serde_json::{json, Value};

pub struct Plan {
    pub jobs: Vec<Job>,
    pub level: String,
    pub rule: String,
    pub bounds: Value,
    pub exhaustive: bool,
    pub assumptions: Vec<String>,
}

pub const DIRECTED: [&str; 2] = ["digraph", "sync_digraph"];
pub const UNDIRECTED: [&str; 2] = ["ungraph", "sync_ungraph"];
pub const ALL: [&str; 4] = ["digraph", "sync_digraph", "ungraph", "sync_ungraph"];

fn job(property: &str, engine: &str, flavour: &str, tier: &str, params: Value) -> Job {
    Job {
        property: property.into(),
        engine: engine.into(),
        flavour: flavour.into(),
        tier: tier.into(),
        params,
        shard: 0,
        nshards: 1,
        trace: false,
    }
}

fn sharded(property: &str, engine: &str, flavour: &str, tier: &str, params: Value, n: usize) -> Vec<Job> {
    (0..n)
        .map(|i| {
            let mut j = job(property, engine, flavour, tier, params.clone());
            j.shard = i;
            j.nshards = n;
            j
        })
        .collect()
}

fn seq_bounds(tier: &str) -> Vec<(usize, usize, usize)> {
    if tier == "quick" {
        vec![(2, 4, 2), (3, 3, 2), (3, 4, 2)]
    } else {
        vec![(2, 5, 2), (2, 6, 1), (3, 4, 2), (3, 5, 2), (3, 6, 1), (4, 4, 2), (4, 5, 1), (5, 4, 1), (6, 3, 1)]
    }
}

/// Properties whose smallest job group per (engine, flavour) is repeated with
/// keys of a type whose Hash maps every key to the same value (`flavor::HK`).
const COLLIDE_COPY: [&str; 9] = ["C01", "C02", "C03", "C11", "C12", "C15", "C18", "C19", "C20"];

/// Properties whose graphs are built by `gsweep::build_world` outside gsweep's own plan.
const CHURN_COPY: [&str; 4] = ["C11", "C12", "C15", "C20"];

pub fn plan(prop: &str, tier: &str) -> Option<Plan> {
    let mut p = plan_inner(prop, tier)?;
    if COLLIDE_COPY.contains(&prop) {
        let mut firsts: Vec<(String, String, Value)> = Vec::new();
        for j in &p.jobs {
            if !firsts.iter().any(|(e, f, _)| *e == j.engine && *f == j.flavour) {
                firsts.push((j.engine.clone(), j.flavour.clone(), j.params.clone()));
            }
        }
        let mut extra = Vec::new();
        for j in &p.jobs {
            if firsts.iter().any(|(e, f, pa)| *e == j.engine && *f == j.flavour && *pa == j.params) {
                let mut c = Job { property: j.property.clone(), engine: j.engine.clone(), flavour: j.flavour.clone(), tier: j.tier.clone(), params: j.params.clone(), shard: j.shard, nshards: j.nshards, trace: j.trace };
                if let Some(o) = c.params.as_object_mut() {
                    o.insert("collide".into(), json!(1));
                    extra.push(c);
                }
            }
        }
        p.jobs.extend(extra);
        p.rule += " The smallest job group of every flavour is run a second time with keys of a type whose Hash maps every key to the same value (identity must be decided by Eq).";
    }
    if CHURN_COPY.contains(&prop) {
        let mut firsts: Vec<(String, String, Value)> = Vec::new();
        for j in &p.jobs {
            if j.params.get("collide").is_none() && !firsts.iter().any(|(e, f, _)| *e == j.engine && *f == j.flavour) {
                firsts.push((j.engine.clone(), j.flavour.clone(), j.params.clone()));
            }
        }
        let mut extra = Vec::new();
        for churn in 1..=3u8 {
            for j in &p.jobs {
                if firsts.iter().any(|(e, f, pa)| *e == j.engine && *f == j.flavour && *pa == j.params) {
                    let mut c = Job { property: j.property.clone(), engine: j.engine.clone(), flavour: j.flavour.clone(), tier: j.tier.clone(), params: j.params.clone(), shard: j.shard, nshards: j.nshards, trace: j.trace };
                    if let Some(o) = c.params.as_object_mut() {
                        o.insert("churn".into(), json!(churn));
                        extra.push(c);
                    }
                }
            }
        }
        p.jobs.extend(extra);
        p.rule += " The smallest job group of every flavour is also run with every graph reached from a non-initial state (a complete mesh connected and disconnected / isolated first; a temporary edge around every connect), see gsweep::build_world.";
    }
    Some(p)
}

fn plan_inner(prop: &str, tier: &str) -> Option<Plan> {
    let common_assumptions = vec![
        "small-scope: behaviour of the adjacency code depends only on list shape (self-loop, parallel, position), all of which occur within the bounds".to_string(),
        "the library is the transition function; reference models are oracles only".to_string(),
    ];
    match prop {
        "C01" | "C02" | "C03" => {
            let flavours: &[&str] = match prop {
                "C01" => &DIRECTED,
                "C02" => &UNDIRECTED,
                _ => &ALL,
            };
            let mut jobs = Vec::new();
            for f in flavours {
                for (n, l, v) in seq_bounds(tier) {
                    jobs.push(job(prop, "seqx", f, tier, json!({"n": n, "max_edges": l, "vals": v})));
                }
                jobs.push(job(prop, "seqx", f, tier, json!({"long": if tier == "quick" { 24 } else { 48 }})));
                // every history, unmerged (hidden state that survives a call)
                let deep: Vec<(usize, usize, usize)> = if tier == "quick" { vec![(2, 5, 4), (3, 4, 8)] } else { vec![(2, 6, 16), (3, 5, 32), (4, 4, 16)] };
                for (n, d, sh) in deep {
                    jobs.extend(sharded(prop, "seqx", f, tier, json!({"n": n, "deep": d}), sh));
                }
                // every explored (merged) state continued by every unmerged suffix: (nodes, live edges, suffix length, shards)
                let suffix: Vec<(usize, usize, usize, usize)> = if tier == "quick" { vec![(2, 3, 4, 2), (3, 3, 3, 16)] } else { vec![(2, 4, 5, 8), (3, 4, 3, 32), (3, 2, 4, 16), (4, 3, 2, 16)] };
                for (n, l, k, sh) in suffix {
                    jobs.extend(sharded(prop, "seqx", f, tier, json!({"n": n, "max_edges": l, "vals": 1, "suffix": k}), sh));
                }
                if prop == "C03" {
                    let (n, l) = if tier == "quick" { (2, 3) } else { (3, 3) };
                    jobs.push(job(prop, "seqx", f, tier, json!({"n": n, "max_edges": l, "vals": 1, "provenance": true})));
                }
            }
            Some(Plan {
                jobs,
                level: "model_checking".into(),
                rule: match prop {
                    "C01" => "BFS over all implementation states reachable with connect/try_connect/disconnect/isolate over all operand pairs (u==v included) within (nodes, live edges, edge values) bounds; every state is a history prefix; mirror invariant + query agreement checked on every state. evaluations = transitions executed on the real code; nontrivial = transitions that are removals, failing calls or have u==v. A second job walks five long connect-only families on 3 nodes (hub-out, hub-in, all-parallel, all-self-loops, mixed) edge by edge up to 24 (quick) / 48 (thorough) edges and applies every alphabet operation to every prefix, so list lengths past any inline-buffer or growth threshold are covered. A third job family executes EVERY history of <= d operations (quick: 2 nodes d=5, 3 nodes d=4; thorough: d=6 / 5, 4 nodes d=4) on one object without merging states and checks the invariant after its last call (hidden state surviving a call); a fourth continues every explored state (3 nodes <= 3 live edges quick, <= 4 thorough) by every unmerged suffix of 3 operations (2 nodes: 4 / 5)".into(),
                    "C02" => "same exploration on the undirected flavours; symmetry invariant + query agreement on every state; plus the long connect-only families (see C01) up to 24 / 48 edges and every unmerged history of <= d operations (see C01)".into(),
                    _ => "every (state, operation) transition of the explored space is executed on the real code and checked against the relational multigraph contract; a second pass repeats every transition with handles of every provenance (clone, graph.get, graph[index], edge endpoint, search result, path node); every alphabet operation is also applied, under the same contract, to every prefix of five long connect-only families on 3 nodes up to 24 (quick) / 48 (thorough) edges; every history of <= d operations (quick: 2 nodes d=5, 3 nodes d=4; thorough: d=6 / 5, 4 nodes d=4) is also executed on one object without merging states and its last call checked against the contract (hidden state surviving a call)".into(),
                },
                bounds: json!({"(nodes, live_edges, edge_values)": seq_bounds(tier)}),
                exhaustive: true,
                assumptions: common_assumptions,
            })
        }
        "C04" | "C05" | "C06" | "C07" | "C08" | "C09" | "C10" => {
            let flavours: &[&str] = if prop == "C08" { &DIRECTED } else { &ALL };
            // (n, max_l, val_range, shards)
            let bounds: Vec<(usize, usize, i8, usize)> = match (prop, tier) {
                ("C06", "quick") => vec![(2, 3, 3, 1), (3, 4, 2, 16), (4, 3, 2, 16)],
                ("C06", _) => vec![(2, 4, 3, 1), (3, 4, 3, 16), (4, 3, 2, 16)],
                ("C07", "quick") => vec![(2, 4, 0, 1), (3, 4, 0, 16), (4, 3, 0, 8)],
                (_, "quick") => vec![(2, 4, 0, 1), (3, 3, 0, 4), (4, 3, 0, 8)],
                ("C08", _) | ("C07", _) => vec![(2, 5, 0, 2), (3, 4, 0, 16), (4, 3, 0, 8)],
                (_, _) => vec![(2, 5, 0, 2), (3, 5, 0, 16), (4, 4, 0, 16)],
            };
            let mut jobs = Vec::new();
            for f in flavours {
                for (n, l, vr, sh) in &bounds {
                    // undirected filters range over both orientations of every edge (4^L subsets):
                    // the two largest quick bounds of C06 are taken one edge smaller there
                    let l = if matches!(prop, "C06" | "C07") && tier == "quick" && f.contains("ungraph") && *n == 3 && *l == 4 { 3 } else if prop == "C06" && tier == "quick" && f.contains("ungraph") && *n >= 3 { *l - 1 } else { *l };
                    jobs.extend(sharded(prop, "gsweep", f, tier, json!({"n": n, "max_l": l, "val_range": vr}), *sh));
                }
                // one more edge on 4 nodes for the directed flavours (2^5 filter subsets; undirected would be 4^5)
                if tier != "quick" && matches!(prop, "C04" | "C05" | "C09" | "C10") && f.contains("digraph") {
                    jobs.extend(sharded(prop, "gsweep", f, tier, json!({"n": 4, "max_l": 5, "val_range": 0}), 32));
                }
                // large structured families (thresholds such as inline capacities of 8 / 16 / 32 elements)
                if matches!(prop, "C04" | "C05" | "C06" | "C07" | "C08" | "C09" | "C10") {
                    let (nmax, sh) = if tier == "quick" { (if matches!(prop, "C06" | "C07" | "C10") { 17 } else { 20 }, 8) } else { (40, 16) };
                    jobs.extend(sharded(prop, "gsweep", f, tier, json!({"n": 0, "max_l": 0, "large": nmax}), sh));
                    // very deep corridors (1024 .. 4096 nodes; thorough up to 16384), own u32-keyed types
                    if prop != "C08" {
                        jobs.extend(sharded(prop, "deepchain", f, tier, json!({}), 4));
                    }
                    // every small shape behind a corridor / fan of m discovered nodes
                    let (pm, pl, psh): (Vec<usize>, usize, usize) = if tier == "quick" { (if prop == "C06" { vec![16, 17, 32, 33] } else { vec![15, 16, 17, 31, 32, 33] }, 2, 8) } else { (vec![7, 8, 9, 15, 16, 17, 31, 32, 33, 47, 48, 49], 3, 32) };
                    jobs.extend(sharded(prop, "gsweep", f, tier, json!({"n": 3, "max_l": pl, "prefix": pm}), psh));
                    // high-degree hubs on 4 nodes: every degree 1..=72 (quick) / 1..=120 (thorough)
                    jobs.extend(sharded(prop, "gsweep", f, tier, json!({"n": 0, "max_l": 0, "hubs": if tier == "quick" { if prop == "C06" { 40 } else { 72 } } else { 120 }}), if tier == "quick" { 4 } else { 8 }));
                }
                // larger graphs up to renaming of the nodes (value-independent kinds only: bfs, dfs, orderings)
                if matches!(prop, "C04" | "C05" | "C09" | "C10") {
                    let directed = f.contains("digraph");
                    let iso: Vec<(usize, usize, usize)> = match (tier == "quick", directed) {
                        (true, true) => vec![(5, if prop == "C10" { 4 } else { 5 }, 16)],
                        (true, false) => vec![(5, 4, 8)],
                        (false, true) => vec![(6, 5, 32), (7, 5, 32), (5, 6, 48)],
                        (false, false) => vec![(6, 4, 16), (5, 5, 48)],
                    };
                    for (n, l, sh) in iso {
                        jobs.extend(sharded(prop, "gsweep", f, tier, json!({"n": n, "max_l": l, "val_range": 0, "iso": true}), sh));
                    }
                }
                // other searches interfering with the checked one: run before it on the same graph (1),
                // run from inside its closure (2)
                for interf in 1..=2u8 {
                    let ib: Vec<(usize, usize, usize)> = if tier == "quick" { vec![(3, 2, 8)] } else { vec![(3, 3, 16), (4, 2, 16)] };
                    for (n, l, sh) in ib {
                        let vr = if prop == "C06" && tier != "quick" { 2 } else { 0 };
                        jobs.extend(sharded(prop, "gsweep", f, tier, json!({"n": n, "max_l": l, "val_range": vr, "interf": interf}), sh));
                    }
                }
                // C07 does not require constant node values: priority-first traversals whose closure
                // raises (3) / lowers (4) the value of the node an edge leads to must still hand over every edge once
                if prop == "C07" {
                    for interf in 3..=4u8 {
                        let ib: Vec<(usize, usize, usize)> = if tier == "quick" { vec![(3, 3, 8)] } else { vec![(3, 4, 16), (4, 3, 16)] };
                        for (n, l, sh) in ib {
                            jobs.extend(sharded(prop, "gsweep", f, tier, json!({"n": n, "max_l": l, "val_range": 0, "interf": interf}), sh));
                        }
                    }
                }
                // the same shapes reached from non-initial states: through histories with removals
                // (mesh connected and disconnected / isolated first; a temporary edge around every connect)
                for churn in 1..=3u8 {
                    let cb: Vec<(usize, usize, usize)> = if tier == "quick" { vec![(3, if prop == "C06" { 2 } else { 3 }, 4)] } else { vec![(3, if prop == "C06" { 3 } else { 4 }, 8), (4, 3, 8)] };
                    for (n, l, sh) in cb {
                        let vr = if prop == "C06" { 2 } else { 0 };
                        jobs.extend(sharded(prop, "gsweep", f, tier, json!({"n": n, "max_l": l, "val_range": vr, "churn": churn}), sh));
                    }
                }
                // the same searches with keys of a type whose Hash is not injective (all keys collide):
                // identity of nodes must be decided by Eq, never by hash
                {
                    let cb: Vec<(usize, usize, usize)> = if tier == "quick" { vec![(3, if prop == "C06" { 2 } else { 3 }, 4)] } else { vec![(3, if prop == "C06" { 3 } else { 4 }, 8), (4, 3, 8)] };
                    for (n, l, sh) in cb {
                        let vr = if prop == "C06" { 2 } else { 0 };
                        jobs.extend(sharded(prop, "gsweep", f, tier, json!({"n": n, "max_l": l, "val_range": vr, "collide": 1}), sh));
                    }
                }
                if prop == "C06" {
                    jobs.push(job(prop, "gsweep", f, tier, json!({"cmp": true})));
                    // priority-queue family: every arrival order of distinct values (and all ties)
                    for (k, sh) in if tier == "quick" { vec![(2usize, 1usize), (3, 1), (4, 8)] } else { vec![(2, 1), (3, 1), (4, 8), (5, 32)] } {
                        jobs.extend(sharded(prop, "gsweep", f, tier, json!({"n": 0, "max_l": 0, "heap": k}), sh));
                    }
                }
            }
            let what = match prop {
                "C04" => "bfs search_path/search for every root, target != root and every subset of rejected arcs (filter) plus no method; oracle: reference BFS distance on the accepted arcs, path validity, shortest length",
                "C05" => "dfs search_path/search, same space; oracle: reference reachability, path validity, simple path",
                "C06" => "pfs min/max for every node-value assignment from a small range (ties included), every root, target (and none), for_each and every filter subset; oracle: expansion-order monitor on the closure trace, path validity, reachability",
                "C07" => "all six traversal kinds: for_each without target (multiset of closure calls = arcs leaving reachable nodes) and every non-empty filter subset for every result kind (no rejected arc in any result, existence = reachability in the accepted graph)",
                "C08" => "every transposed configuration {6 kinds} x {result kinds} x target x {none, for_each, every filter subset}: differential against the same call without transpose() on the edge-reversed graph built with the real code, plus reference oracles on the reversed model; without transpose() only out-arcs are handed to closures",
                "C09" => "search_cycle for bfs/dfs/pfs-min/pfs-max, no method / for_each / every filter subset; oracle: reference cycle existence, validity, no repeated arc or intermediate node (directed), shortest for bfs (directed); closed walk (undirected)",
                _ => "preorder/postorder (directed) and order().pre()/.post() (undirected) search_nodes/search_edges, no method / for_each / every filter subset; oracle: exact set of all depth-first discovery / finishing sequences of the accepted graph",
            };
            Some(Plan {
                jobs,
                level: "exploration".into(),
                rule: format!("every canonical adjacency shape (all connect-only histories up to the edge bound, deduplicated by observed adjacency lists, edges labelled 1..L) x every root x {}. The smaller bounds are repeated with every shape reached from a non-initial state (a complete mesh connected and then disconnected edge by edge, or torn down with isolate, before the shape is built; a temporary edge on an unused pair connected before and disconnected after every connect): equal observable adjacency must mean equal search behaviour whatever the history; and once more with keys of a type whose Hash maps every key to the same value (the library requires only K: Hash + Eq, so node identity must never be decided by hash). evaluations = searches executed on the real code; nontrivial = distinct cases with a non-empty filter or a result of >= 2 edges / >= 3 nodes", what),
                bounds: json!({
                    "(nodes, max_edges, node_value_range, shards)": bounds,
                    "large_structured_families_max_nodes": if tier == "quick" { if matches!(prop, "C06" | "C07" | "C10") { 17 } else { 20 } } else { 40 },
                    "shapes_up_to_renaming_(nodes, max_edges)": if !matches!(prop, "C04" | "C05" | "C09" | "C10") { json!([]) } else if tier == "quick" { json!({"directed": [[5, if prop == "C10" { 4 } else { 5 }]], "undirected": [[5, 4]]}) } else { json!({"directed": [[6, 5], [7, 5], [5, 6]], "undirected": [[6, 4], [5, 5]]}) },
                    "non_initial_states_and_colliding_hashes_(nodes, max_edges)": if tier == "quick" { json!([[3, if prop == "C06" { 2 } else { 3 }]]) } else { json!([[3, if prop == "C06" { 3 } else { 4 }], [4, 3]]) },
                    "note_undirected_flavours": if tier == "quick" && prop == "C06" { json!("bounds with >= 3 nodes are one edge smaller on ungraph / sync_ungraph (filters range over both orientations of every edge)") } else if tier == "quick" && prop == "C07" { json!("(3, 4) is (3, 3) on ungraph / sync_ungraph") } else { json!(null) },
                    "priority_queue_family_k": if prop != "C06" { json!(null) } else if tier == "quick" { json!([2, 3, 4]) } else { json!([2, 3, 4, 5]) },
                }),
                exhaustive: true,
                assumptions: common_assumptions,
            })
        }
        "C11" | "C12" => {
            let flavours: &[&str] = if prop == "C11" { &DIRECTED } else { &ALL };
            // (n, max_l, shards)
            let bounds: Vec<(usize, usize, usize)> = match (prop, tier) {
                ("C11", "quick") => vec![(2, 4, 1), (3, 4, 4), (4, 3, 4)],
                ("C11", _) => vec![(2, 5, 1), (3, 5, 8), (4, 5, 16)],
                ("C12", "quick") => vec![(2, 4, 1), (3, 3, 4)],
                (_, _) => vec![(2, 5, 1), (3, 5, 16), (4, 4, 16)],
            };
            let mut jobs = Vec::new();
            for f in flavours {
                for (n, l, sh) in &bounds {
                    jobs.extend(sharded(prop, "csweep", f, tier, json!({"n": n, "max_l": l}), *sh));
                }
                jobs.extend(sharded(prop, "csweep", f, tier, json!({"n": 0, "max_l": 0, "large": if tier == "quick" { 20 } else { 40 }}), 8));
                jobs.extend(sharded(prop, "csweep", f, tier, json!({"n": 0, "max_l": 0, "hubs": if tier == "quick" { 72 } else { 120 }}), 4));
                // the same container used again after edges changed through the node handles
                let mb: Vec<(usize, usize, usize)> = if tier == "quick" { vec![(2, 3, 1), (3, 3, 8)] } else { vec![(2, 4, 2), (3, 4, 16), (4, 3, 16)] };
                for (n, l, sh) in mb {
                    jobs.extend(sharded(prop, "csweep", f, tier, json!({"n": n, "max_l": l, "mutate": true}), sh));
                }
                if prop == "C12" {
                    let fb: Vec<(usize, usize, usize)> = if tier == "quick" { vec![(2, 3, 1), (3, 3, 4)] } else { vec![(2, 4, 2), (3, 4, 16), (4, 3, 16)] };
                    for (n, l, sh) in fb {
                        jobs.extend(sharded(prop, "csweep", f, tier, json!({"n": n, "max_l": l, "formats": true}), sh));
                    }
                    jobs.extend(sharded(prop, "csweep", f, tier, json!({"n": 0, "max_l": 0, "large": if tier == "quick" { 12 } else { 24 }, "formats": true}), 4));
                }
            }
            Some(Plan {
                jobs,
                level: "exploration".into(),
                rule: if prop == "C11" {
                    "every canonical directed adjacency shape with all nodes members x two insertion orders x every container iteration order (first hash seed producing each of the n! orders, via the seed hook): scc() must be a partition of the members equal to the reference mutual-reachability classes; plus the large structured families (chains, cycles with chords, fan-out / fan-in with one extra edge at every position, 2..20 nodes quick / 2..40 thorough, three hash seeds). Reuse: scc() is called twice on every container, and (jobs with mutate) once more after every single connect / disconnect / isolate and every move of one edge applied through the node handles, against the components of the graph as it then is. nontrivial = cases with >= 2 edges".into()
                } else {
                    "every canonical adjacency shape of each container type x two insertion orders x every container iteration order x {JSON, CBOR}: serialise with the real code, deserialise into a graph with a different hash seed, compare keys, node values, per-node outgoing edge lists (directed: order too; undirected: multiset) and the mirror/symmetry invariant of the result; plus the large structured families (2..20 nodes quick / 2..40 thorough, three hash seeds, JSON and CBOR). Reuse: every container is serialised twice, and (jobs with mutate) once more after every single connect / disconnect / isolate and every move of one edge applied through the node handles. Other encodings and entry points of the two serde implementations (packed CBOR, self-described CBOR, CBOR and JSON through io readers / writers, serde_cbor::Value, serde_json::Value, pretty JSON, JSON bytes) on every small shape and the large families with one seed. nontrivial = cases with >= 1 edge".into()
                },
                bounds: json!({"(nodes, max_edges, shards)": bounds}),
                exhaustive: true,
                assumptions: {
                    let mut a = common_assumptions;
                    a.push("container iteration orders are enumerated exhaustively only up to 4 keys (seed table); graphs are closed (every neighbour is a member)".into());
                    a
                },
            })
        }
        "C13" => {
            let mut jobs = Vec::new();
            for f in ALL {
                jobs.extend(sharded(prop, "docsweep", f, tier, json!({}), if tier == "quick" { 4 } else { 16 }));
            }
            Some(Plan {
                jobs,
                level: "fault_enumeration".into(),
                rule: "for each of the four containers x {u8, String} keys x {JSON, CBOR}: (a) every schema-free document up to a size/depth bound over 7 atoms; (b) every valid document of every edge list on <=3 nodes up to the edge bound and every single structural fault of it at every position (drop / duplicate / swap / truncate / append / retype to 10 atom kinds / retarget to every declared and one undeclared key), fault pairs on the smallest seeds; (c) every byte prefix; (d) single-byte substitutions of the CBOR encodings and substitutions from the JSON structural alphabet; (f) String-keyed documents whose keys are long mixed-width UTF-8 strings (character boundaries on odd / on even byte offsets), valid, every single fault, every prefix; (e) large valid documents (cycle, fan-in of 20 nodes quick; chain, cycle, fan-out, fan-in, multi-edge of 17/24/33/40 nodes thorough) with every single structural fault and every byte prefix. Oracle: no panic / hang; Err, or Ok(graph) satisfying the invariants whose nodes (with a declared value) and edges (multiset) are contained in the schema-free reading of the document; Err whenever that reading shows an edge naming an undeclared key. nontrivial = every case except the plain valid documents".into(),
                bounds: json!({"quick": "synthetic size<=5 depth<=3; seeds (n,edges) (1,2),(2,2),(3,2); a third of byte values", "thorough": "synthetic size<=6 depth<=4; seeds (1,2),(2,3),(3,3); all 256 byte values"}),
                exhaustive: true,
                assumptions: vec![
                    "the schema-free reading uses serde_json::Value / serde_cbor::Value; documents they cannot read are only checked for no-panic and invariants".into(),
                    "memory is capped with RLIMIT_AS; a worker that dies is attributed to its shard".into(),
                ],
            })
        }
        "C14" => Some(Plan {
            jobs: vec![job(prop, "progsweep", "macros", tier, json!({}))],
            level: "exploration".into(),
            rule: "every invocation of digraph!, ungraph!, sync_digraph!, sync_ungraph! in each of the four signature forms with <=3 listed nodes (identity and reversed listing order), each node's edge list in {omitted, [], every list of <=2 targets over the listed keys} (quick: all with <=2 nodes, 3 nodes with <=2 edges in total), distinct node and edge value literals; per arm invocations with an edge naming an unlisted key at every position of a short list; per arm five large invocations with 20 listed nodes (chain, cycle, fan-out, fan-in in reversed listing order, one list of 40 targets); the () arm and the *_node! / *_connect! helpers. Every program is generated as Rust source, compiled against the working tree and run; its observation (node set, values, per-node edge lists) is compared with the denotation computed by the generator from the invocation's syntax. nontrivial = every invocation".into(),
            bounds: json!({"listed_nodes": 3, "targets_per_list": 2, "forms": 4, "macros": 4}),
            exhaustive: true,
            assumptions: vec![
                "key type u8, value types i64 / (): the macro bodies do not depend on the concrete types".into(),
                "directed: outgoing and incoming lists must both be in listing order (the macros connect in listing order); undirected: the position of foreign half-edges within a node's list is not part of the denotation, each node's own listed edges must appear in listed order".into(),
            ],
        }),
        "C15" => {
            let mut jobs = Vec::new();
            for f in ["sync_digraph", "sync_ungraph"] {
                let read: Vec<(usize, usize, usize)> = if tier == "quick" { vec![(2, 3, 2), (3, 3, 16)] } else { vec![(2, 4, 4), (3, 3, 16), (4, 2, 8)] };
                for (n, l, sh) in read {
                    jobs.extend(sharded(prop, "lockstep", f, tier, json!({"n": n, "max_l": l, "mode": "read"}), sh));
                }
                // bigger structured graphs, light transcript: (max nodes of the large families, k of the priority-queue family, shards)
                let (ln, lk, lsh) = if tier == "quick" { (18, 3, 8) } else { (34, 4, 16) };
                jobs.extend(sharded(prop, "lockstep", f, tier, json!({"n": ln, "max_l": lk, "mode": "light"}), lsh));
                let muts: Vec<(usize, usize, usize)> = if tier == "quick" { vec![(2, 4, 2), (3, 3, 2)] } else { vec![(2, 5, 2), (3, 4, 2), (4, 3, 1)] };
                for (n, l, v) in muts {
                    jobs.push(job(prop, "lockstep", f, tier, json!({"n": n, "max_l": l, "mode": "mutate", "vals": v})));
                }
                // every history of <= d operations on one object of each flavour, unmerged: (nodes, d, shards)
                let deep: Vec<(usize, usize, usize)> = if tier == "quick" { vec![(2, 5, 4), (3, 4, 8)] } else { vec![(2, 6, 16), (3, 5, 32)] };
                for (n, d, sh) in deep {
                    jobs.extend(sharded(prop, "lockstep", f, tier, json!({"n": n, "max_l": d, "mode": "deep"}), sh));
                }
                // programs that mutate the graph from inside an edge loop or a traversal closure
                let loops: Vec<(usize, usize, usize)> = if tier == "quick" { vec![(2, 2, 2), (3, 2, 16)] } else { vec![(2, 3, 8), (3, 2, 16), (3, 3, 32)] };
                for (n, l, sh) in loops {
                    jobs.extend(sharded(prop, "lockstep", f, tier, json!({"n": n, "max_l": l, "mode": "loops"}), sh));
                }
            }
            Some(Plan {
                jobs,
                level: "model_checking".into(),
                rule: "lock-step product exploration: (a) BFS over the plain flavour's adjacency state space, every transition applied to a plain and a sync object built from the same history, returns and complete observations compared; (b) on every canonical shape the whole read-only API (queries, comparison operators, edge equality, every search/ordering configuration with every filter subset, container calls, scc, DOT, JSON/CBOR) is run on both flavours and the transcripts compared entry by entry; (c) a lighter transcript (every traversal kind x transpose x {no target, last node, the root} x every terminal x both builder orders from three roots with a recording closure, scc, DOT, JSON) on the large structured families (chains, cycles, fans of 2..18 nodes quick / 2..34 thorough plus every single extra edge; the largest size also with descending and all-equal node values) and on the priority-queue family (root, k children, k grandchildren, every assignment of the values 1..2k; k = 3 quick, 4 thorough); (d) every history of <= d operations (quick: 2 nodes d=5, 3 nodes d=4; thorough d=6 / 5) executed on one object of each flavour without merging states; (e) every small shape x root x every loop kind (edge iterators by for / by hand / through every adaptor method, every traversal with for_each / filter) x every mutating operation executed from inside the loop at every step: edges handed to the body, traversal result and final adjacency compared. evaluations = transitions + transcript entries compared".into(),
                bounds: json!({"quick": "read: (2 nodes,<=3 edges),(3,<=3), each with distinct and with all-equal node values; mutate: (2,4,2 values),(3,3,2)", "thorough": "read: (2,4),(3,3),(4,2); mutate: (2,5,2),(3,4,2),(4,3,1)"}),
                exhaustive: true,
                assumptions: vec![
                    "only calls present in both members of a pair are compared; sizeof() (bytes of the representation) is not a key/value result and is excluded".into(),
                    "a call that ends abnormally on both sides is not a divergence (C03/C20 report it)".into(),
                ],
            })
        }
        "C16" => Some(Plan {
            jobs: {
                let mut jobs = vec![
                    job(prop, "progsweep", "sync", tier, json!({"hooks": true})),
                    job(prop, "progsweep", "sync", tier, json!({"hooks": false})),
                ];
                for f in ALL {
                    jobs.extend(sharded(prop, "confine", f, tier, json!({"max": if tier == "quick" { 8192 } else { 65536 }}), 4));
                }
                jobs
            },
            level: "exploration".into(),
            rule: "the full lattice of auto-trait classes {Send+Sync, Send+!Sync, !Send+Sync, !Send+!Sync}^3 for (K, N, E), two structurally different witness types per class, x {Node, Edge, Graph} of the four flavours x {Send, Sync}: one probe program turns every obligation into a constant decided by the compiler's trait solver and the table is compared with the biconditional; plus universally quantified obligations (generic over K, N, E) that must type-check (positive) or be rejected with E0277 (negative), each compiled separately; built against the working tree with hooks on and off. Thread confinement (engine confine): K, N, E instantiated with types that are neither Send nor Sync and record the thread of every trait-method call (Clone, Drop, Eq, Ord, Hash, Display, Serialize, Deserialize); the whole container / node API is called from one thread on star graphs with 1..40 spokes and every power of two +-1 up to 8192 (quick) / 65536 (thorough), on all four flavours; no payload method may run on another thread. evaluations = table entries + generic obligations + API calls watched; nontrivial = entries with at least one non-Send+Sync payload + generic obligations".into(),
            bounds: json!({"classes": 64, "witness_families": 2, "types": 12, "traits": 2, "generic_obligations": "see counters"}),
            exhaustive: true,
            assumptions: vec![
                "trait bounds in gdsl mention no trait that separates two witnesses of the same auto-trait class".into(),
                "the last clause of the property (no safe program can race on a payload) follows from the Send/Sync table for code outside the library; for the library's own code it is watched dynamically (engine confine) on the stated size family only".into(),
            ],
        }),
        "C18" => {
            let params = if tier == "quick" {
                json!({"max_edges": 2, "max_depth": 4, "seeds": [0, 1, 2], "dot_attr_max_edges": 2})
            } else {
                json!({"max_edges": 3, "max_depth": 7, "seeds": [0, 1, 2, 3, 4, 5, 6, 7], "dot_attr_max_edges": 3})
            };
            Some(Plan {
                jobs: ALL
                    .iter()
                    .flat_map(|f| {
                        let mut owned = params.clone();
                        owned["container_owned"] = json!(true);
                        vec![job(prop, "cont", f, tier, params.clone()), job(prop, "cont", f, tier, owned), job(prop, "cont", f, tier, json!({"many": if tier == "quick" { 40 } else { 96 }}))]
                    })
                    .collect(),
                level: "model_checking".into(),
                rule: "BFS over (member map, adjacency) states reached by histories of insert (5 node objects: 3 graph nodes and 2 same-key impostors with different values), remove, and connect/try_connect/disconnect/isolate applied through handles taken from the container (get / index alternating) or, for non-members, the program's own handles; after every step every view (contains, len, is_empty, get, index, to_vec, iter, roots, leaves, orphans) is compared with a map model plus the reference adjacency, return values of insert/remove with the model, edge operations with the C03 contract observed through the program's own handles (identity), and the DOT exports are parsed statement by statement (to_dot on every state and every hash seed, to_dot_with_attr for all 4 x 6 x 6 callback combinations on small states (None, empty, one, two attributes, and two variants whose answer depends on the node or edge asked about)); the three constructors are compared on the empty container; everything is explored twice: with the program keeping its own handle to every node, and with the container holding the only strong handle of its members (handles are dropped on insert and taken back from remove); insert/remove must not change any adjacency. A third job inserts chains of 1..40 (quick) / 1..96 (thorough) nodes under two hash seeds, checks every view and both DOT exports, then removes every key one by one (checking all views after each removal and that a second removal returns None), so hash-map growth and rehash thresholds are crossed in both directions. evaluations = histories executed".into(),
                bounds: params.clone(),
                exhaustive: true,
                assumptions: vec![
                    "indexing an absent key panics by HashMap's contract and is outside the property".into(),
                    "impostor nodes (same key, other value) never take part in edges: the edge contract presupposes distinct keys among neighbours".into(),
                ],
            })
        }
        "C19" => {
            let shapes2: Vec<Vec<(u8, u8)>> = vec![vec![], vec![(0, 1)], vec![(0, 0)], vec![(0, 1), (1, 0)], vec![(0, 1), (0, 0)]];
            let shapes3: Vec<Vec<(u8, u8)>> = vec![vec![(0, 1), (1, 2)], vec![(0, 1), (1, 2), (2, 0)], vec![(0, 1), (2, 1), (2, 2)]];
            let mut jobs = Vec::new();
            for f in ALL {
                for s in &shapes2 {
                    let (mh, md) = if tier == "quick" { (4, 5) } else { (5, 7) };
                    jobs.push(job(prop, "drops", f, tier, json!({"n": 2, "init": s, "max_handles": mh, "max_edges": s.len() + 1, "max_depth": md})));
                }
                for s in &shapes3 {
                    let (mh, md) = if tier == "quick" { (4, 4) } else { (6, 6) };
                    jobs.push(job(prop, "drops", f, tier, json!({"n": 3, "init": s, "max_handles": mh, "max_edges": s.len() + if tier == "quick" { 0 } else { 1 }, "max_depth": md})));
                }
                // high-degree hubs (per-node thresholds): every degree 1..=40 / 1..=100
                jobs.extend(sharded(prop, "drops", f, tier, json!({"large": if tier == "quick" { 40 } else { 100 }}), 4));
            }
            Some(Plan {
                jobs,
                level: "model_checking".into(),
                rule: "BFS over (edge list, held handles) states from several initial shapes (no edge, chain, self-loop, 2-cycle, 3-cycle, mixed) of nodes with drop-counting values: operations clone a handle, create a container, insert / remove, connect, disconnect, isolate, keep an Edge from an iterator, keep a Path of a search or cycle search, keep a node found by a search, drop any single held handle, drop the container on another thread (sync flavours); after every step a value must be released iff no held handle (node, container slot, edge, path, search result) mentions its node, never twice, and nodes reached through held handles must be usable; at the end of every history all remaining handles are dropped and every value must have been released exactly once (no clone of a value leaked either). Operations that would walk over a released neighbour are outside the property and disabled by the model. Large family: the four hub graphs (hub-out, hub-in, mixed with self-loops, parallel; 4 nodes) with every degree 1..40 (quick) / 1..100 (thorough), unused or after look-ups and every search kind, with and without a container, node handles dropped in three orders: a value is released exactly when its last handle goes, all released exactly once at the end. evaluations = histories executed; nontrivial = transitions that drop something".into(),
                bounds: json!({"quick": "2 nodes: <=4 handles, depth 5; 3 nodes: <=4 handles, depth 4", "thorough": "2 nodes: <=5 handles, depth 7; 3 nodes: <=6 handles, depth 6"}),
                exhaustive: true,
                assumptions: vec!["node values are released by Drop of the payload; the tracker distinguishes the original value from clones the library may make".into()],
            })
        }
        "C20" => {
            // (n, max_l, two_ops, shards)
            let table: Vec<(usize, usize, bool, usize)> = if tier == "quick" { vec![(2, 2, true, 4), (3, 2, false, 8)] } else { vec![(2, 3, true, 8), (3, 2, true, 16), (3, 3, false, 16)] };
            let mut jobs = Vec::new();
            for f in ALL {
                for (n, l, two, sh) in &table {
                    jobs.extend(sharded(prop, "loopx", f, tier, json!({"n": n, "max_l": l, "two_ops": two}), *sh));
                }
                // container-owned mode: the closure isolates a node and removes it from the only container owning it
                for (n, l, sh) in if tier == "quick" { vec![(2usize, 2usize, 1usize), (3, 2, 4)] } else { vec![(2, 3, 2), (3, 3, 8), (4, 2, 8)] } {
                    jobs.extend(sharded(prop, "loopx", f, tier, json!({"n": n, "max_l": l, "two_ops": false, "owned": true}), sh));
                }
                let large: Vec<usize> = if tier == "quick" { vec![17] } else { vec![17, 24, 33] };
                jobs.extend(sharded(prop, "loopx", f, tier, json!({"n": 3, "max_l": 0, "two_ops": false, "large": large}), 5 * large.len()));
            }
            Some(Plan {
                jobs,
                level: "exploration".into(),
                rule: "every canonical shape up to the bound x every root x every loop kind (edge iterators iter_out/iter, iter_in, `for e in &n`; bfs, dfs, pfs-min, pfs-max, preorder, postorder, transposed variants for the directed flavours, closure installed as for_each and as filter, with every target and without, through search_path() and through search(), cycle searches) x every script 'at callback step i perform o' for every step the unscripted loop reaches and every o in {connect, try_connect, disconnect, isolate over all operands, degree/is_connected/find queries, a nested complete edge loop, a nested bfs search, clone+drop of a handle}; thorough adds every second mutating operation at every later step; every operation that adds no edge is also executed at *every* callback step. Oracle: no panic / self-deadlock (lock monitor) / crash; the loop ends within 4*(edges + edges added by the script)+8 callbacks; every yielded edge exists in the graph at the moment it is yielded with its true endpoints and value (checked by a fresh iteration from inside the callback); handles taken before the loop still work; the final state equals the state reached by the same operations outside any loop. Container-owned mode: all nodes are owned by a Graph container only (the program keeps just the root's handle) and at every callback step the closure isolates one node and removes it from the container, for every node - the running loop must neither panic on the released node nor yield a stale edge, and the remaining members must stay intact. The same single-operation and every-step scripts also run on hub-heavy multigraphs of 3 nodes with 17 / 24 / 33 edges (hub-out, hub-in, all-parallel, all-self-loops, mixed), so adjacency lists far longer than the enumerated shapes are mutated mid-iteration at every position. nontrivial = scripts with a mutating operation".into(),
                bounds: json!({"(nodes, max_edges, two_op_scripts, shards)": table, "large_family_edge_counts": if tier == "quick" { vec![17] } else { vec![17, 24, 33] }}),
                exhaustive: true,
                assumptions: vec!["a traversal that never calls back cannot be stopped by the closure; the worker watchdog reports it as a hang".into()],
            })
        }
        "C17" => {
            let known = KnownFindings::load(&format!("{}/known_findings.json", crate::verif_dir()));
            let mut jobs = Vec::new();
            for f in ["sync_digraph", "sync_ungraph"] {
                let open_pairs: Vec<String> = known
                    .findings
                    .iter()
                    .filter(|k| k.status == "open" && k.property == "C17" && k.flavour == f)
                    .filter_map(|k| k.class.split_once('/').map(|x| x.1.to_string()))
                    .collect();
                // (n, init_edges, shape, bound, max_exec, shards)
                let table: Vec<(usize, usize, &str, Option<usize>, u64, usize)> = if tier == "quick" {
                    vec![(2, 2, "2x1", None, 200_000, 16), (3, 1, "iso12", Some(2), 20_000, 16), (2, 1, "2x1b", Some(1), 20_000, 16), (9, 0, "hubiso", Some(2), 20_000, 8), (18, 0, "hubiso", Some(2), 20_000, 8)]
                } else {
                    vec![
                        (2, 2, "2x1", None, 500_000, 8),
                        (3, 1, "2x1", None, 500_000, 16),
                        (2, 1, "2x2m", Some(2), 50_000, 16),
                        (2, 1, "3x1m", Some(2), 50_000, 16),
                        (2, 1, "2x1q2", Some(3), 50_000, 8),
                        (3, 1, "iso12", Some(3), 100_000, 16),
                        (3, 1, "12m", Some(2), 20_000, 16),
                        (2, 1, "q1m2", Some(2), 20_000, 16),
                        (3, 2, "2x1i", Some(2), 20_000, 32),
                        (2, 2, "2x1b", Some(2), 20_000, 32),
                        (3, 1, "2x1b", Some(1), 5_000, 32),
                        (2, 1, "q2m2", Some(1), 5_000, 32),
                        (8, 0, "hubiso", None, 100_000, 8),
                        (9, 0, "hubiso", None, 100_000, 8),
                        (10, 0, "hubiso", None, 100_000, 8),
                        (17, 0, "hubiso", Some(3), 100_000, 8),
                        (18, 0, "hubiso", Some(3), 100_000, 8),
                        (34, 0, "hubiso", Some(2), 100_000, 8),
                    ]
                };
                for (n, ie, shape, bound, max_exec, sh) in table {
                    jobs.extend(sharded(prop, "sched", f, tier, json!({"n": n, "init_edges": ie, "shape": shape, "bound": bound, "max_exec": max_exec, "open_pairs": open_pairs}), sh));
                }
            }
            Some(Plan {
                jobs,
                level: "model_checking".into(),
                rule: "stateless DFS over all interleavings of lock acquisitions of the real code under a deterministic scheduler (one scheduling point before every RwLock read()/write() of the sync node modules); 2-thread x 1-call scenarios over all operand pairs and initial edge lists are explored completely (no preemption bound), larger ones up to the stated preemption bound; every execution is judged: no deadlock (also under std's writer-preferring RwLock policy), no panic, no poisoned lock, invariants at quiescence, and (final state, returns of the mutating calls) equal to some sequential order of the same calls run on the real code. states/transitions = lock points scheduled; evaluations = complete schedules; nontrivial = scenarios with >= 2 distinct outcomes over their schedules".into(),
                bounds: json!({"quick": "2 nodes, <=2 initial edges (parallel edges with distinct values included), 2 threads x 1 call, all interleavings, both address orders; 3 nodes: isolate vs two consecutive mutations touching the isolated node, preemption bound 2, all 6 address orders; every mutator vs every call of the second query family (predicates, transposed / max-first / cycle searches, loops and traversals whose closures query the nodes, container views) on 2 nodes with <=1 initial edge, preemption bound 1; hubs: isolate of a node with 8 and 17 neighbours vs one call touching it or a neighbour, ascending and descending address order, preemption bound 2", "thorough": "also <=2 initial edges, 3 nodes 2x1, 2x2 and 3x1 mutator scenarios with preemption bound 2, mutator vs 2 queries with bound 3, isolate vs two mutations with bound 3, every 1 mutator vs 2 mutators scenario on 3 nodes up to node renaming with bound 2, every query / traversal vs 2 consecutive mutations on 2 nodes (bound 2), isolate vs every other single call on 3 nodes with <=2 initial edges and all 6 address orders (bound 2); second query family: vs every mutator on 2 nodes <=2 initial edges (bound 2) and on 3 nodes up to node renaming (bound 1), and vs two consecutive mutations on 2 nodes (bound 1); hubs with 7, 8, 9 neighbours (no bound), 16, 17 (bound 3), 33 (bound 2)"}),
                exhaustive: true,
                assumptions: vec![
                    "scheduling at lock acquisitions is sufficient: between two acquisitions a thread touches only its own stack, immutable keys/values and Arc counters (data-race freedom outside the locks is Rust's type system plus C16)".into(),
                    "the cfg(gdsl_verif) RwLock wrapper intercepts every lock operation of the two sync node modules".into(),
                    "deadlocks that need std's writer-preference are labelled rr-deadlock (policy of the futex RwLock on Linux, measured in this sandbox)".into(),
                    "larger scenarios containing a call pair that is an open known finding are skipped (counted in scenarios_skipped_open_known_pair)".into(),
                ],
            })
        }
        _ => None,
    }
}

pub fn work(job: &Job, out: &mut Out) {
    crate::flavor::set_collide(job.params.get("collide").and_then(|v| v.as_u64()).unwrap_or(0) as u8);
    gsweep::set_churn(job.params.get("churn").and_then(|v| v.as_u64()).unwrap_or(0) as u8);
    match job.engine.as_str() {
        "seqx" => crate::with_flavor!(job.flavour.as_str(), F => seqx::explore::<F>(job, out)),
        "gsweep" => crate::with_flavor!(job.flavour.as_str(), F => gsweep::sweep::<F>(job, out)),
        "csweep" => crate::with_flavor!(job.flavour.as_str(), F => csweep::sweep::<F>(job, out)),
        "confine" => crate::confine::sweep(job, out),
        "deepchain" => crate::deepchain::sweep(job, out),
        "sched" => crate::with_sync_flavor!(job.flavour.as_str(), F => sched::sweep::<F>(job, out)),
        "docsweep" => docsweep::sweep(job, out),
        "loopx" => crate::with_flavor!(job.flavour.as_str(), F => loopx::sweep::<F>(job, out)),
        "drops" => crate::with_flavor!(job.flavour.as_str(), F => drops::explore::<F>(job, out)),
        "cont" => crate::with_flavor!(job.flavour.as_str(), F => cont::explore::<F>(job, out)),
        "progsweep" => match job.property.as_str() {
            "C16" => progsweep::c16(job, out),
            "C14" => progsweep::c14(job, out),
            other => panic!("GDSL_MC_HARNESS: progsweep has no sweep for {}", other),
        },
        "lockstep" => match job.flavour.as_str() {
            "sync_digraph" => lockstep::sweep_pair::<crate::flavor::Di, crate::flavor::SDi>(job, out),
            "sync_ungraph" => lockstep::sweep_pair::<crate::flavor::Un, crate::flavor::SUn>(job, out),
            other => panic!("GDSL_MC_HARNESS: lockstep needs a sync flavour, got {}", other),
        },
        other => panic!("GDSL_MC_HARNESS: unknown engine {}", other),
    }
}

pub fn replay(property: &str, engine: &str, flavour: &str, case: &Value) -> Vec<Violation> {
    crate::flavor::set_collide(case.get("collide").and_then(|v| v.as_u64()).unwrap_or(0) as u8);
    gsweep::set_churn(case.get("churn").and_then(|v| v.as_u64()).unwrap_or(0) as u8);
    match engine {
        "seqx" => crate::with_flavor!(flavour, F => seqx::replay::<F>(property, case)),
        "gsweep" => crate::with_flavor!(flavour, F => gsweep::replay::<F>(property, case)),
        "csweep" => crate::with_flavor!(flavour, F => csweep::replay::<F>(property, case)),
        "confine" => crate::confine::replay(property, case),
        "deepchain" => crate::deepchain::replay(property, case),
        "sched" => crate::with_sync_flavor!(flavour, F => sched::replay::<F>(property, case)),
        "docsweep" => docsweep::replay(property, case),
        "loopx" => crate::with_flavor!(flavour, F => loopx::replay::<F>(property, case)),
        "drops" => crate::with_flavor!(flavour, F => drops::replay::<F>(property, case)),
        "cont" => crate::with_flavor!(flavour, F => cont::replay::<F>(property, case)),
        "progsweep" => match property {
            "C16" => progsweep::replay_c16(property, case),
            "C14" => progsweep::replay_c14(property, case),
            other => panic!("GDSL_MC_HARNESS: progsweep has no replay for {}", other),
        },
        "lockstep" => match flavour {
            "sync_digraph" => lockstep::replay_pair::<crate::flavor::Di, crate::flavor::SDi>(property, case),
            "sync_ungraph" => lockstep::replay_pair::<crate::flavor::Un, crate::flavor::SUn>(property, case),
            other => panic!("GDSL_MC_HARNESS: lockstep needs a sync flavour, got {}", other),
        },
        other => panic!("GDSL_MC_HARNESS: unknown engine {}", other),
    }
}
