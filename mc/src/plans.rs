//! Which jobs make up each property check at each tier, and dispatch of
//! worker jobs and replays to the engines.

use crate::report::*;
use crate::seqx;
use crate::seqx::Out;
use serde_json::{json, Value};

pub struct Plan {
    pub jobs: Vec<Job>,
    pub level: String,
    pub rule: String,
    pub bounds: Value,
    pub exhaustive: bool,
    pub assumptions: Vec<String>,
}

pub const DIRECTED: [&str; 2] = ["digraph", "sync_digraph"];
pub const UNDIRECTED: [&str; 2] = ["ungraph", "sync_ungraph"];
pub const ALL: [&str; 4] = ["digraph", "sync_digraph", "ungraph", "sync_ungraph"];

fn job(property: &str, engine: &str, flavour: &str, tier: &str, params: Value) -> Job {
    Job {
        property: property.into(),
        engine: engine.into(),
        flavour: flavour.into(),
        tier: tier.into(),
        params,
        shard: 0,
        nshards: 1,
        trace: false,
    }
}

fn sharded(property: &str, engine: &str, flavour: &str, tier: &str, params: Value, n: usize) -> Vec<Job> {
    (0..n)
        .map(|i| {
            let mut j = job(property, engine, flavour, tier, params.clone());
            j.shard = i;
            j.nshards = n;
            j
        })
        .collect()
}

fn seq_bounds(tier: &str) -> Vec<(usize, usize, usize)> {
    if tier == "quick" {
        vec![(2, 4, 2), (3, 3, 2)]
    } else {
        vec![(2, 5, 2), (3, 4, 2), (3, 5, 1), (4, 3, 1), (4, 4, 1)]
    }
}

pub fn plan(prop: &str, tier: &str) -> Option<Plan> {
    let common_assumptions = vec![
        "small-scope: behaviour of the adjacency code depends only on list shape (self-loop, parallel, position), all of which occur within the bounds".to_string(),
        "the library is the transition function; reference models are oracles only".to_string(),
    ];
    match prop {
        "C01" | "C02" | "C03" => {
            let flavours: &[&str] = match prop {
                "C01" => &DIRECTED,
                "C02" => &UNDIRECTED,
                _ => &ALL,
            };
            let mut jobs = Vec::new();
            for f in flavours {
                for (n, l, v) in seq_bounds(tier) {
                    jobs.push(job(prop, "seqx", f, tier, json!({"n": n, "max_edges": l, "vals": v})));
                }
                if prop == "C03" {
                    let (n, l) = if tier == "quick" { (2, 3) } else { (3, 3) };
                    jobs.push(job(prop, "seqx", f, tier, json!({"n": n, "max_edges": l, "vals": 1, "provenance": true})));
                }
            }
            Some(Plan {
                jobs,
                level: "model_checking".into(),
                rule: match prop {
                    "C01" => "BFS over all implementation states reachable with connect/try_connect/disconnect/isolate over all operand pairs (u==v included) within (nodes, live edges, edge values) bounds; every state is a history prefix; mirror invariant + query agreement checked on every state. evaluations = transitions executed on the real code; nontrivial = transitions that are removals, failing calls or have u==v".into(),
                    "C02" => "same exploration on the undirected flavours; symmetry invariant + query agreement on every state".into(),
                    _ => "every (state, operation) transition of the explored space is executed on the real code and checked against the relational multigraph contract; a second pass repeats every transition with handles of every provenance (clone, graph.get, graph[index], edge endpoint, search result, path node)".into(),
                },
                bounds: json!({"(nodes, live_edges, edge_values)": seq_bounds(tier)}),
                exhaustive: true,
                assumptions: common_assumptions,
            })
        }
        _ => None,
    }
}

pub fn work(job: &Job, out: &mut Out) {
    match job.engine.as_str() {
        "seqx" => crate::with_flavor!(job.flavour.as_str(), F => seqx::explore::<F>(job, out)),
        other => panic!("GDSL_MC_HARNESS: unknown engine {}", other),
    }
}

pub fn replay(property: &str, engine: &str, flavour: &str, case: &Value) -> Vec<Violation> {
    match engine {
        "seqx" => crate::with_flavor!(flavour, F => seqx::replay::<F>(property, case)),
        other => panic!("GDSL_MC_HARNESS: unknown engine {}", other),
    }
}
