//! gdsl-mc: model-checking harness for the gdsl properties.
//!
//!   gdsl-mc run <Cxx> [--tier quick|thorough]     run a property check
//!   gdsl-mc worker <job-json>                      (internal) one shard
//!   gdsl-mc replay <file> [--json]                 replay one recorded case

#[macro_use]
mod core;
mod cont;
mod confine;
mod csweep;
mod deepchain;
mod docsweep;
mod drops;
mod flatfmt;
mod flavor;
mod gsweep;
mod lockstep;
mod loopx;
mod refmodel;
mod model;
mod plans;
mod progress;
mod progsweep;
mod report;
mod sched;
mod seqx;

use report::*;
use serde_json::{json, Value};
use std::collections::BTreeMap;
use std::io::{BufRead, Write};
use std::process::{Command, Stdio};
use std::time::Instant;

pub fn verif_dir() -> String {
    std::env::var("VERIF_DIR").unwrap_or_else(|_| "/verif".to_string())
}

#[macro_export]
macro_rules! with_flavor {
    ($name:expr, $F:ident => $body:expr) => {
        match $name {
            "digraph" => {
                type $F = $crate::flavor::Di;
                $body
            }
            "sync_digraph" => {
                type $F = $crate::flavor::SDi;
                $body
            }
            "ungraph" => {
                type $F = $crate::flavor::Un;
                $body
            }
            "sync_ungraph" => {
                type $F = $crate::flavor::SUn;
                $body
            }
            other => panic!("GDSL_MC_HARNESS: unknown flavour {}", other),
        }
    };
}

#[macro_export]
macro_rules! with_sync_flavor {
    ($name:expr, $F:ident => $body:expr) => {
        match $name {
            "sync_digraph" => {
                type $F = $crate::flavor::SDi;
                $body
            }
            "sync_ungraph" => {
                type $F = $crate::flavor::SUn;
                $body
            }
            other => panic!("GDSL_MC_HARNESS: not a sync flavour: {}", other),
        }
    };
}

fn main() {
    let args: Vec<String> = std::env::args().collect();
    if args.len() < 2 {
        eprintln!("usage: gdsl-mc run <Cxx> [--tier quick|thorough] | replay <file>");
        std::process::exit(2);
    }
    core::install_panic_hook();
    match args[1].as_str() {
        "run" => {
            let prop = args.get(2).cloned().unwrap_or_default();
            let mut tier = std::env::var("VERIF_TIER").unwrap_or_else(|_| "quick".into());
            let mut i = 3;
            while i < args.len() {
                if args[i] == "--tier" && i + 1 < args.len() {
                    tier = args[i + 1].clone();
                    i += 1;
                }
                i += 1;
            }
            std::process::exit(run(&prop, &tier));
        }
        "worker" => {
            let job: Job = serde_json::from_str(&args[2]).expect("job json");
            worker(&job);
        }
        "replay" => {
            let json_mode = args.iter().any(|a| a == "--json");
            std::process::exit(replay_file(&args[2], json_mode));
        }
        _ => {
            eprintln!("unknown command {}", args[1]);
            std::process::exit(2);
        }
    }
}

// ---------------------------------------------------------------------------
// worker
// ---------------------------------------------------------------------------

fn worker(job: &Job) {
    if let Ok(p) = std::env::var("GDSL_MC_CASE_FILE") {
        progress::open_case_file(&p);
    }
    let limit = if job.tier == "quick" { 20 } else { 120 };
    progress::start_watchdog(limit);
    let mut out = seqx::Out::new();
    let r = std::panic::catch_unwind(std::panic::AssertUnwindSafe(|| {
        plans::work(job, &mut out);
    }));
    if let Err(_) = r {
        let msg = core::take_last_panic().unwrap_or_default();
        println!("X {}", json!({"error": msg, "job": job.label()}));
        std::process::exit(4);
    }
    let so = std::io::stdout();
    let mut so = so.lock();
    for v in out.viols.values() {
        writeln!(so, "V {}", serde_json::to_string(v).unwrap()).unwrap();
    }
    writeln!(so, "S {}", serde_json::to_string(&out.stats).unwrap()).unwrap();
}

// ---------------------------------------------------------------------------
// replay
// ---------------------------------------------------------------------------

fn replay_file(path: &str, json_mode: bool) -> i32 {
    let text = match std::fs::read_to_string(path) {
        Ok(t) => t,
        Err(e) => {
            eprintln!("cannot read {}: {}", path, e);
            return 2;
        }
    };
    let v: Value = serde_json::from_str(&text).expect("replay json");
    let property = v["property"].as_str().unwrap().to_string();
    let engine = v["engine"].as_str().unwrap().to_string();
    let flavour = v["flavour"].as_str().unwrap().to_string();
    progress::start_watchdog(30);
    progress::set_case(|| v["case"].to_string());
    if !json_mode {
        println!("replaying {} ({} / {} / {})", path, property, engine, flavour);
        println!("  recorded class: {}", v["class"]);
        println!("  recorded what : {}", v["what"]);
        if let Some(p) = v["case"].get("program") {
            println!("  program       : {}", p);
        }
    }
    let mut runs = Vec::new();
    for _ in 0..2 {
        let r = plans::replay(&property, &engine, &flavour, &v["case"]);
        runs.push(
            r.iter()
                .map(|x| (x.class.clone(), x.what.clone()))
                .collect::<Vec<_>>(),
        );
    }
    if runs[0] != runs[1] {
        eprintln!("machinery error: replay is not deterministic: {:?} vs {:?}", runs[0], runs[1]);
        return 2;
    }
    if json_mode {
        println!("{}", json!({"violations": runs[0]}));
    } else {
        for (c, w) in &runs[0] {
            println!("  REPRODUCED class={} : {}", c, w);
        }
        if runs[0].is_empty() {
            println!("  not reproduced: the property holds on this case");
        }
    }
    if runs[0].is_empty() {
        0
    } else {
        1
    }
}

// ---------------------------------------------------------------------------
// parent: run a property
// ---------------------------------------------------------------------------

struct JobResult {
    job: Job,
    viols: Vec<Violation>,
    stats: Option<Stats>,
    hang: Option<String>,
    crash: Option<String>,
    error: Option<String>,
}

fn run_job(job: &Job, idx: usize) -> JobResult {
    let exe = std::env::current_exe().expect("current exe");
    let case_file = format!("{}/.work/cur/{}-{}.case", verif_dir(), std::process::id(), idx);
    let mut res = JobResult {
        job: job.clone(),
        viols: vec![],
        stats: None,
        hang: None,
        crash: None,
        error: None,
    };
    let child = Command::new(exe)
        .arg("worker")
        .arg(serde_json::to_string(job).unwrap())
        .env("GDSL_MC_CASE_FILE", &case_file)
        .stdout(Stdio::piped())
        .stderr(Stdio::piped())
        .spawn();
    let mut child = match child {
        Ok(c) => c,
        Err(e) => {
            res.error = Some(format!("cannot spawn worker: {}", e));
            return res;
        }
    };
    let stderr = child.stderr.take().unwrap();
    let errt = std::thread::spawn(move || {
        let mut s = String::new();
        for l in std::io::BufReader::new(stderr).lines().map_while(Result::ok) {
            if s.len() < 4000 {
                s.push_str(&l);
                s.push('\n');
            }
        }
        s
    });
    let stdout = child.stdout.take().unwrap();
    for line in std::io::BufReader::new(stdout).lines().map_while(Result::ok) {
        if let Some(r) = line.strip_prefix("V ") {
            match serde_json::from_str::<Violation>(r) {
                Ok(v) => res.viols.push(v),
                Err(e) => res.error = Some(format!("bad V line: {}", e)),
            }
        } else if let Some(r) = line.strip_prefix("S ") {
            res.stats = serde_json::from_str(r).ok();
        } else if let Some(r) = line.strip_prefix("H ") {
            res.hang = Some(r.to_string());
        } else if let Some(r) = line.strip_prefix("X ") {
            res.error = Some(r.to_string());
        }
    }
    let status = child.wait();
    let errtxt = errt.join().unwrap_or_default();
    match status {
        Ok(st) if st.success() => {}
        Ok(st) if st.code() == Some(3) && res.hang.is_some() => {}
        Ok(st) if st.code() == Some(4) => {
            if res.error.is_none() {
                res.error = Some(format!("worker failed: {}", errtxt));
            }
        }
        Ok(st) => {
            // killed by a signal or aborted: a crash inside the case on file
            let case = std::fs::read_to_string(&case_file).unwrap_or_default();
            if case.is_empty() {
                res.error = Some(format!("worker died ({:?}) before any case: {}", st, errtxt));
            } else {
                res.crash = Some(format!("{}\u{1}{:?}: {}", case, st, errtxt.lines().last().unwrap_or("")));
            }
        }
        Err(e) => res.error = Some(format!("wait failed: {}", e)),
    }
    let _ = std::fs::remove_file(&case_file);
    res
}

fn run(prop: &str, tier: &str) -> i32 {
    let t0 = Instant::now();
    let seed: u64 = std::env::var("VERIF_SEED").ok().and_then(|s| s.parse().ok()).unwrap_or(0);
    let plan = match plans::plan(prop, tier) {
        Some(p) => p,
        None => {
            eprintln!("machinery error: no plan for property {}", prop);
            return 2;
        }
    };
    let known = KnownFindings::load(&format!("{}/known_findings.json", verif_dir()));
    let njobs = plan.jobs.len();
    let maxpar = std::env::var("GDSL_MC_JOBS").ok().and_then(|s| s.parse().ok()).unwrap_or(16usize);
    // rotate the job order by the seed (affects scheduling only, never the verdict)
    let mut order: Vec<usize> = (0..njobs).collect();
    if njobs > 0 {
        order.rotate_left((seed as usize) % njobs);
    }
    let queue = std::sync::Arc::new(std::sync::Mutex::new(order));
    let results = std::sync::Arc::new(std::sync::Mutex::new(Vec::<(usize, JobResult)>::new()));
    let jobs = std::sync::Arc::new(plan.jobs.clone());
    let mut handles = Vec::new();
    for _ in 0..maxpar.min(njobs.max(1)) {
        let queue = queue.clone();
        let results = results.clone();
        let jobs = jobs.clone();
        handles.push(std::thread::spawn(move || loop {
            let idx = match queue.lock().unwrap().pop() {
                Some(i) => i,
                None => break,
            };
            let tj = Instant::now();
            let r = run_job(&jobs[idx], idx);
            if std::env::var("GDSL_MC_TIMES").is_ok() {
                eprintln!("job-time {:.1}s {} {}", tj.elapsed().as_secs_f64(), jobs[idx].label(), jobs[idx].params);
            }
            results.lock().unwrap().push((idx, r));
        }));
    }
    for h in handles {
        let _ = h.join();
    }
    let mut results = std::mem::take(&mut *results.lock().unwrap());
    results.sort_by_key(|(i, _)| *i);

    let mut stats = Stats::default();
    let mut by_class: BTreeMap<String, Violation> = BTreeMap::new();
    let mut machinery_errors = Vec::new();
    for (_, r) in &results {
        if let Some(e) = &r.error {
            machinery_errors.push(format!("{}: {}", r.job.label(), e));
        }
        if let Some(s) = &r.stats {
            stats.merge(s);
        }
        let mut vs = r.viols.clone();
        if let Some(h) = &r.hang {
            vs.push(Violation {
                property: prop.into(),
                engine: r.job.engine.clone(),
                flavour: r.job.flavour.clone(),
                class: "hang".into(),
                what: "no progress within the watchdog limit while working on this case".into(),
                case: serde_json::from_str(h).unwrap_or(json!({"raw": h})),
                order: 0,
            });
        }
        if let Some(c) = &r.crash {
            let (case, how) = c.split_once('\u{1}').unwrap_or((c, ""));
            vs.push(Violation {
                property: prop.into(),
                engine: r.job.engine.clone(),
                flavour: r.job.flavour.clone(),
                class: "crash".into(),
                what: format!("worker process died while working on this case ({})", how),
                case: serde_json::from_str(case).unwrap_or(json!({"raw": case})),
                order: 0,
            });
        }
        for v in vs {
            let key = format!("{}|{}", v.flavour, v.class);
            match by_class.get(&key) {
                Some(old) if old.order <= v.order => {}
                _ => {
                    by_class.insert(key, v);
                }
            }
        }
    }
    if !machinery_errors.is_empty() {
        for e in &machinery_errors {
            eprintln!("machinery error: {}", e);
        }
        return 2;
    }

    // Confirm each candidate by an explorer-free replay (twice, inside the
    // replay command) before reporting it.
    let replay_dir = format!("{}/replays", verif_dir());
    let _ = std::fs::create_dir_all(&replay_dir);
    let mut new_violations = 0usize;
    let mut known_hits = 0usize;
    let mut lines = Vec::new();
    // candidates that an explorer-free replay does not confirm are never
    // reported as violations; they are machinery errors, but must not mask
    // confirmed violations of the same run
    let mut unconfirmed: Vec<String> = Vec::new();
    for v in by_class.values() {
        let body = json!({
            "property": v.property, "engine": v.engine, "flavour": v.flavour,
            "class": v.class, "what": v.what, "case": v.case,
            "replay": format!("./check {} --replay <this file>", v.property),
        });
        let text = serde_json::to_string_pretty(&body).unwrap();
        let path = format!("{}/{}-{}.json", replay_dir, v.property, digest(&format!("{}{}{}", v.flavour, v.class, v.case)));
        std::fs::write(&path, &text).expect("write replay");
        if v.class != "hang" && v.class != "crash" {
            let exe = std::env::current_exe().unwrap();
            let o = Command::new(exe).arg("replay").arg(&path).arg("--json").output();
            match o {
                Ok(o) if o.status.code() == Some(1) => {
                    let so = String::from_utf8_lossy(&o.stdout);
                    let confirmed = so.lines().filter_map(|l| serde_json::from_str::<Value>(l).ok()).any(|j| {
                        j["violations"].as_array().map(|a| a.iter().any(|x| x[0] == v.class.as_str())).unwrap_or(false)
                    });
                    if !confirmed {
                        unconfirmed.push(format!("replay of {} reproduced a different class than {}: {}", path, v.class, so));
                        continue;
                    }
                }
                Ok(o) => {
                    unconfirmed.push(format!(
                        "violation {} ({}) did not reproduce by plain replay (exit {:?}): {}{}",
                        v.class, path, o.status.code(),
                        String::from_utf8_lossy(&o.stdout), String::from_utf8_lossy(&o.stderr)
                    ));
                    continue;
                }
                Err(e) => {
                    eprintln!("machinery error: cannot run replay: {}", e);
                    return 2;
                }
            }
        }
        if let Some(f) = known.open_match(v) {
            known_hits += 1;
            let _ = std::fs::remove_file(&path);
            lines.push(format!(
                "KNOWN-FINDING: property={} flavour={} class={} witness: {}",
                v.property, v.flavour, v.class, f.witness
            ));
        } else {
            new_violations += 1;
            lines.push(format!("VIOLATION property={} replay={}", v.property, path));
            lines.push(format!("  flavour={} class={}", v.flavour, v.class));
            lines.push(format!("  {}", v.what));
        }
    }
    for u in &unconfirmed {
        eprintln!("machinery error: {}", u);
    }
    if !unconfirmed.is_empty() && new_violations == 0 {
        return 2;
    }
    let wall = t0.elapsed().as_secs_f64();
    write_evidence(
        &format!("{}/evidence/{}.json", verif_dir(), prop),
        prop,
        tier,
        seed,
        &plan.level,
        &stats,
        &plan.rule,
        plan.bounds.clone(),
        plan.exhaustive,
        &plan.assumptions,
        wall,
        new_violations,
        known_hits,
    );
    println!(
        "{} [{}] jobs={} evaluations={} states={} transitions={} distinct_outcomes={} wall={:.1}s",
        prop, tier, njobs, stats.get("evaluations"), stats.get("states"), stats.get("transitions"),
        stats.outcomes.len(), wall
    );
    for l in &lines {
        println!("{}", l);
    }
    if new_violations > 0 {
        return 1;
    }
    if stats.get("evaluations") == 0 {
        eprintln!("machinery error: nothing was explored");
        return 2;
    }
    {
        println!("OK property={} held on everything explored ({} known finding(s) matched)", prop, known_hits);
        0
    }
}

