//! C19: edges never own nodes. Explicit-state exploration of histories of
//! construction, connection, taking handles (clones, container slots, edges,
//! paths, search results) and dropping any single handle, observed with
//! drop-counting payloads and compared with a handle-reachability model.

use crate::core::*;
use crate::flavor::*;
use crate::report::*;
use crate::seqx::Out;
use serde::{Deserialize, Serialize};
use serde_json::{json, Value};
use std::collections::{BTreeSet, HashSet};
use std::sync::Arc;

#[derive(Clone, Copy, Debug, PartialEq, Eq, Hash, Serialize, Deserialize, PartialOrd, Ord)]
pub enum DOp {
    Clone(u8),
    NewContainer,
    Insert(u8),
    RemoveFromContainer(u8),
    Connect(u8, u8),
    Disconnect(u8, u8),
    Isolate(u8),
    /// keep the first edge yielded by the node's edge iterator
    TakeEdge(u8),
    /// keep the Path of bfs().target(t).search_path()
    TakePath(u8, u8),
    /// keep the Path of dfs().search_cycle()
    TakeCycle(u8),
    /// keep the node returned by dfs().target(t).search()
    TakeFound(u8, u8),
    /// drop the i-th held handle
    Drop(usize),
    /// drop the container on another thread (sync flavours) / here
    DropContainerElsewhere,
    /// compare two nodes with every operator (all node values are equal: ties)
    Compare(u8, u8),
    /// run a complete priority-first traversal from the node and keep nothing
    PfsTraverse(u8),
    /// every lookup query (is_connected, find_outbound, find_inbound, degrees)
    /// between every pair of nodes, then every search (all kinds, to every
    /// target whether reachable or not, cycle searches, orderings) from every
    /// node; sources ascending (false) or descending (true), targets likewise;
    /// keeps nothing
    Lookups(bool),
}

impl DOp {
    pub fn show(&self) -> String {
        match self {
            DOp::Clone(k) => format!("h.push(n{}.clone())", k),
            DOp::NewContainer => "h.push(Graph::new())".into(),
            DOp::Insert(k) => format!("g.insert(n{}.clone())", k),
            DOp::RemoveFromContainer(k) => format!("drop(g.remove(&{}))", k),
            DOp::Connect(u, v) => format!("n{}.connect(&n{}, 1)", u, v),
            DOp::Disconnect(u, v) => format!("n{}.disconnect(&{})", u, v),
            DOp::Isolate(u) => format!("n{}.isolate()", u),
            DOp::TakeEdge(u) => format!("h.push(n{}.iter().next().unwrap())", u),
            DOp::TakePath(u, t) => format!("h.push(n{}.bfs().target(&{}).search_path().unwrap())", u, t),
            DOp::TakeCycle(u) => format!("h.push(n{}.dfs().search_cycle().unwrap())", u),
            DOp::TakeFound(u, t) => format!("h.push(n{}.dfs().target(&{}).search().unwrap())", u, t),
            DOp::Drop(i) => format!("drop(h.remove({}))", i),
            DOp::DropContainerElsewhere => "drop the container on another thread".into(),
            DOp::Compare(u, v) => format!("let _ = n{} < n{}, max(n{}, n{}) ...", u, v, u, v),
            DOp::Lookups(desc) => format!("for every pair (u, v){}: u.is_connected(&v); u.find_outbound(&v); u.find_inbound(&v); u.degree(); then every search kind u -> v (search, search_path), cycle searches and orderings from every u, results dropped", if *desc { " in descending order" } else { "" }),
            DOp::PfsTraverse(u) => format!("n{}.pfs().for_each(..).search()", u),
        }
    }
}

#[derive(Clone, Debug, PartialEq, Eq, Hash, PartialOrd, Ord, Serialize, Deserialize)]
pub enum MH {
    Node(u8),
    Container(Vec<u8>),
    Edge(u8, u8),
    Path(Vec<u8>),
    Found(u8),
}

impl MH {
    fn mentions(&self) -> Vec<u8> {
        match self {
            MH::Node(k) | MH::Found(k) => vec![*k],
            MH::Container(v) | MH::Path(v) => v.clone(),
            MH::Edge(u, v) => vec![*u, *v],
        }
    }
}

/// Model state: edges (directed pairs in connect order, dangling ones kept),
/// handles in order.
#[derive(Clone, Debug, PartialEq, Eq, Hash, Serialize, Deserialize)]
pub struct DModel {
    pub n: usize,
    pub directed: bool,
    pub edges: Vec<(u8, u8)>,
    pub handles: Vec<MH>,
    /// lookup queries have been made at some point of the history (they must
    /// not change what is released when, but are kept apart so that histories
    /// continuing after them are explored)
    #[serde(default)]
    pub queried: bool,
}

impl DModel {
    pub fn alive(&self, k: u8) -> bool {
        self.handles.iter().any(|h| h.mentions().contains(&k))
    }
    fn all_alive(&self) -> bool {
        (0..self.n as u8).all(|k| self.alive(k))
    }
    /// neighbours whose Weak links node k's iterators would upgrade
    fn iter_neighbours(&self, k: u8) -> Vec<u8> {
        let mut v = Vec::new();
        for (a, b) in &self.edges {
            if *a == k {
                v.push(*b);
            }
            if !self.directed && *b == k {
                v.push(*a);
            }
        }
        v
    }
    fn first_iter_edge(&self, k: u8) -> Option<(u8, u8)> {
        // directed: first outgoing; undirected: outbound half-edges first, then inbound ones
        if let Some(e) = self.edges.iter().find(|e| e.0 == k) {
            return Some((k, e.1));
        }
        if !self.directed {
            if let Some(e) = self.edges.iter().find(|e| e.1 == k) {
                return Some((k, e.0));
            }
        }
        None
    }
    fn adj(&self) -> Vec<Vec<u8>> {
        (0..self.n as u8).map(|k| self.iter_neighbours(k)).collect()
    }
    fn reachable(&self, u: u8, t: u8) -> bool {
        let adj = self.adj();
        let mut seen = vec![false; self.n];
        let mut st = vec![u];
        seen[u as usize] = true;
        while let Some(x) = st.pop() {
            for y in &adj[x as usize] {
                if !seen[*y as usize] {
                    seen[*y as usize] = true;
                    st.push(*y);
                }
            }
        }
        seen[t as usize]
    }
    fn on_cycle(&self, u: u8) -> bool {
        self.adj()[u as usize].iter().any(|x| *x == u || self.reachable(*x, u))
    }
    fn container(&self) -> Option<usize> {
        self.handles.iter().position(|h| matches!(h, MH::Container(_)))
    }

    /// Is the operation inside the property's alphabet in this state?
    pub fn enabled(&self, op: &DOp, max_handles: usize, max_edges: usize) -> bool {
        let room = self.handles.len() < max_handles;
        match *op {
            DOp::Clone(k) => room && self.alive(k),
            DOp::NewContainer => room && self.container().is_none(),
            DOp::Insert(k) => self.alive(k) && self.container().map_or(false, |c| matches!(&self.handles[c], MH::Container(v) if !v.contains(&k))),
            DOp::RemoveFromContainer(k) => self.container().map_or(false, |c| matches!(&self.handles[c], MH::Container(v) if v.contains(&k))),
            DOp::Connect(u, v) => self.alive(u) && self.alive(v) && self.edges.len() < max_edges,
            // removal walks the lists of both endpoints and upgrades every entry it passes
            DOp::Disconnect(u, v) => self.alive(u) && self.alive(v) && self.all_alive(),
            DOp::Isolate(u) => self.alive(u) && self.all_alive(),
            DOp::TakeEdge(u) => room && self.alive(u) && self.first_iter_edge(u).is_some() && self.iter_neighbours(u).iter().all(|x| self.alive(*x)),
            DOp::TakePath(u, t) => room && u != t && self.all_alive() && self.reachable(u, t),
            DOp::TakeCycle(u) => room && self.all_alive() && self.on_cycle(u),
            DOp::TakeFound(u, t) => room && u != t && self.all_alive() && self.reachable(u, t),
            DOp::Drop(i) => i < self.handles.len(),
            DOp::DropContainerElsewhere => self.container().is_some(),
            DOp::Compare(u, v) => self.alive(u) && self.alive(v),
            DOp::PfsTraverse(u) => self.alive(u) && self.all_alive(),
            DOp::Lookups(_) => self.all_alive() && !self.edges.is_empty(),
        }
    }
}

enum RH<F: Fl> {
    Node(F::Node),
    Container(F::Graph),
    Edge(F::Edge),
    Path(F::Path),
    Found(F::Node),
}

pub struct DWorld<F: Fl> {
    pub reg: Arc<Registry>,
    pub model: DModel,
    real: Vec<RH<F>>,
}

type Bad = (String, String);
fn bad<T>(code: &str, d: String) -> Result<T, Bad> {
    Err((code.to_string(), d))
}

impl<F: Fl> DWorld<F> {
    pub fn new(n: usize, init: &[(u8, u8)]) -> Self {
        if F::SYNC {
            ensure_monitor();
        }
        let reg = Arc::new(Registry::default());
        let real: Vec<RH<F>> = (0..n).map(|k| RH::Node(F::node(k as K, Val::tracked(0, k as u8, &reg)))).collect();
        let mut w = DWorld { reg, model: DModel { n, directed: F::DIRECTED, edges: vec![], handles: (0..n as u8).map(MH::Node).collect(), queried: false }, real };
        for (u, v) in init {
            let (a, b) = (w.node(*u), w.node(*v));
            F::connect(&a, &b, 1);
            w.model.edges.push((*u, *v));
        }
        w
    }

    /// A (transient) handle to node k obtained through any held handle that mentions it.
    fn node(&self, k: u8) -> F::Node {
        for h in &self.real {
            match h {
                RH::Node(n) | RH::Found(n) if F::key(n) == k => return n.clone(),
                RH::Container(g) => {
                    if let Some(n) = F::g_get(g, k) {
                        return n;
                    }
                }
                RH::Edge(e) => {
                    let (a, b, _) = F::edge_parts(e);
                    if F::key(&a) == k {
                        return a;
                    }
                    if F::key(&b) == k {
                        return b;
                    }
                }
                RH::Path(p) => {
                    if let Some(n) = F::path_nodes(p).into_iter().find(|n| F::key(n) == k) {
                        return n;
                    }
                }
                _ => {}
            }
        }
        panic!("{}: no handle mentions node {}", HARNESS_MARK, k);
    }

    pub fn apply(&mut self, op: &DOp) -> Result<(), Bad> {
        match *op {
            DOp::Clone(k) => {
                let n = self.node(k);
                self.real.push(RH::Node(n));
                self.model.handles.push(MH::Node(k));
            }
            DOp::NewContainer => {
                self.real.push(RH::Container(F::g_new()));
                self.model.handles.push(MH::Container(vec![]));
            }
            DOp::Insert(k) => {
                let n = self.node(k);
                let c = self.model.container().unwrap();
                if let RH::Container(g) = &mut self.real[c] {
                    if !F::g_insert(g, n) {
                        return bad("insert-refused", format!("insert of absent key {} refused", k));
                    }
                }
                if let MH::Container(v) = &mut self.model.handles[c] {
                    v.push(k);
                }
            }
            DOp::RemoveFromContainer(k) => {
                let c = self.model.container().unwrap();
                if let RH::Container(g) = &mut self.real[c] {
                    drop(F::g_remove(g, k));
                }
                if let MH::Container(v) = &mut self.model.handles[c] {
                    v.retain(|x| *x != k);
                }
            }
            DOp::Connect(u, v) => {
                let (a, b) = (self.node(u), self.node(v));
                F::connect(&a, &b, 1);
                self.model.edges.push((u, v));
            }
            DOp::Disconnect(u, v) => {
                let a = self.node(u);
                let r = F::disconnect(&a, v);
                // model: directed removes first u->v; undirected: inbound half first, then outbound
                let pos = if self.model.directed {
                    self.model.edges.iter().position(|e| *e == (u, v))
                } else {
                    self.model.edges.iter().position(|e| *e == (v, u)).or_else(|| self.model.edges.iter().position(|e| *e == (u, v)))
                };
                match (pos, r.is_ok()) {
                    (Some(p), true) => {
                        self.model.edges.remove(p);
                    }
                    (None, false) => {}
                    (p, ok) => return bad("disconnect-result", format!("disconnect({},{}) ok={} but model edge position {:?}", u, v, ok, p)),
                }
            }
            DOp::Isolate(u) => {
                let a = self.node(u);
                F::isolate(&a);
                self.model.edges.retain(|e| e.0 != u && e.1 != u);
            }
            DOp::TakeEdge(u) => {
                let a = self.node(u);
                // which incident edge comes first is not this property's
                // business: keep whatever the iterator yields first
                let e = F::edges_out(&a).into_iter().next();
                match e {
                    Some(e) => {
                        let acc = F::edge_accessors(&e);
                        let known = self.model.edges.iter().any(|m| (m.0, m.1) == (acc.0, acc.1) || (!self.model.directed && (m.1, m.0) == (acc.0, acc.1)));
                        if acc.0 != u || !known {
                            return bad("edge-endpoints", format!("first edge of n{} is {:?}, which is not an edge of the graph {:?}", u, acc, self.model.edges));
                        }
                        self.real.push(RH::Edge(e));
                        self.model.handles.push(MH::Edge(acc.0, acc.1));
                    }
                    None => return bad("edge-missing", format!("n{} yields no edge, model has {:?}", u, self.model.first_iter_edge(u))),
                }
            }
            DOp::TakePath(..) | DOp::TakeCycle(..) => {
                let (u, t) = match *op {
                    DOp::TakePath(u, t) => (u, Some(t)),
                    DOp::TakeCycle(u) => (u, None),
                    _ => unreachable!(),
                };
                let a = self.node(u);
                let cfg = match t {
                    Some(t) => Cfg { kind: Kind::Bfs, transpose: false, target: Some(t), meth: Meth::None, res: ResK::Path, alt: false, tt: false },
                    None => Cfg { kind: Kind::Dfs, transpose: false, target: None, meth: Meth::None, res: ResK::Cycle, alt: false, tt: false },
                };
                match F::search_path_obj(&a, &cfg, &mut |_| true) {
                    Some(p) => {
                        let mut nodes: Vec<u8> = F::path_obs(&p).iter_nodes;
                        nodes.sort();
                        nodes.dedup();
                        self.real.push(RH::Path(p));
                        self.model.handles.push(MH::Path(nodes));
                    }
                    None => return bad("path-missing", format!("{} returned None although the model says it exists", op.show())),
                }
            }
            DOp::TakeFound(u, t) => {
                let a = self.node(u);
                let cfg = Cfg { kind: Kind::Dfs, transpose: false, target: Some(t), meth: Meth::None, res: ResK::Search, alt: false, tt: false };
                let (_, mut nodes) = F::search(&a, &cfg, &mut |_| true);
                match nodes.pop() {
                    Some(n) if F::key(&n) == t => {
                        self.real.push(RH::Found(n));
                        self.model.handles.push(MH::Found(t));
                    }
                    _ => return bad("found-missing", format!("{} did not return the target", op.show())),
                }
            }
            DOp::Drop(i) => {
                drop(self.real.remove(i));
                self.model.handles.remove(i);
            }
            DOp::DropContainerElsewhere => {
                let c = self.model.container().unwrap();
                if let RH::Container(g) = self.real.remove(c) {
                    F::g_drop_elsewhere(g);
                }
                self.model.handles.remove(c);
            }
            DOp::Compare(u, v) => {
                let (a, b) = (self.node(u), self.node(v));
                let _ = F::node_cmp(&a, &b);
            }
            DOp::PfsTraverse(u) => {
                let a = self.node(u);
                for kind in [Kind::PfsMin, Kind::PfsMax] {
                    let cfg = Cfg { kind, transpose: false, target: None, meth: Meth::ForEach, res: ResK::Search, alt: false, tt: false };
                    let _ = F::search(&a, &cfg, &mut |_| true);
                }
            }
            DOp::Lookups(desc) => {
                let n = self.model.n as u8;
                let order: Vec<u8> = if desc { (0..n).rev().collect() } else { (0..n).collect() };
                for &u in &order {
                    let a = self.node(u);
                    for &v in &order {
                        let _ = F::is_connected(&a, v as K);
                        drop(F::find_out(&a, v as K));
                        drop(F::find_in(&a, v as K));
                    }
                    let _ = (F::deg_out(&a), F::is_orphan(&a));
                }
                // ... and every kind of search from every node to every target
                // (found or not), cycle searches and orderings; all results are dropped at once
                for &u in &order {
                    let a = self.node(u);
                    for transpose in if F::DIRECTED { vec![false, true] } else { vec![false] } {
                        for kind in [Kind::Bfs, Kind::Dfs, Kind::PfsMin, Kind::PfsMax] {
                            for &t in &order {
                                if t != u {
                                    for res in [ResK::Path, ResK::Search] {
                                        let cfg = Cfg { kind, transpose, target: Some(t as K), meth: Meth::None, res, alt: false, tt: false };
                                        drop(F::search(&a, &cfg, &mut |_| true));
                                    }
                                }
                            }
                            let cfg = Cfg { kind, transpose, target: None, meth: Meth::None, res: ResK::Cycle, alt: false, tt: false };
                            drop(F::search(&a, &cfg, &mut |_| true));
                        }
                        for kind in [Kind::Pre, Kind::Post] {
                            let cfg = Cfg { kind, transpose, target: None, meth: Meth::None, res: ResK::Nodes, alt: false, tt: false };
                            drop(F::search(&a, &cfg, &mut |_| true));
                        }
                    }
                }
                self.model.queried = true;
            }
        }
        Ok(())
    }

    /// The invariant of the property on the current state.
    pub fn check(&self) -> Result<(), Bad> {
        for k in 0..self.model.n as u8 {
            let d = self.reg.dropped(k as usize);
            let alive = self.model.alive(k);
            if alive && d != 0 {
                return bad("released-while-handle-held", format!("the value of n{} was released {} time(s) although handles {:?} still mention it", k, d, self.model.handles));
            }
            if !alive && d == 0 {
                return bad("leaked", format!("no handle mentions n{} any more (handles {:?}, edges {:?}) but its value was not released", k, self.model.handles, self.model.edges));
            }
            if d > 1 {
                return bad("released-twice", format!("the value of n{} was released {} times", k, d));
            }
        }
        // nodes mentioned by held handles are usable
        for h in &self.real {
            let nodes: Vec<F::Node> = match h {
                RH::Node(n) | RH::Found(n) => vec![n.clone()],
                RH::Edge(e) => {
                    let (a, b, _) = F::edge_parts(e);
                    vec![a, b]
                }
                RH::Path(p) => F::path_nodes(p),
                RH::Container(g) => F::g_to_vec(g),
            };
            for n in nodes {
                let k = F::key(&n);
                if F::pval(&n) != 0 {
                    return bad("handle-unusable", format!("node {} reached through a held handle reports value {}", k, F::pval(&n)));
                }
                let _ = (F::deg_out(&n), F::deg_in(&n), F::is_orphan(&n));
            }
        }
        Ok(())
    }
}

fn ops(n: usize, max_handles: usize) -> Vec<DOp> {
    let mut v = Vec::new();
    let n = n as u8;
    for i in 0..max_handles {
        v.push(DOp::Drop(i));
    }
    v.push(DOp::NewContainer);
    v.push(DOp::DropContainerElsewhere);
    v.push(DOp::Lookups(false));
    v.push(DOp::Lookups(true));
    for k in 0..n {
        v.push(DOp::Clone(k));
        v.push(DOp::PfsTraverse(k));
        v.push(DOp::Insert(k));
        v.push(DOp::RemoveFromContainer(k));
        v.push(DOp::TakeEdge(k));
        v.push(DOp::TakeCycle(k));
        v.push(DOp::Isolate(k));
        for t in 0..n {
            v.push(DOp::Connect(k, t));
            if k <= t {
                v.push(DOp::Compare(k, t));
            }
            v.push(DOp::Disconnect(k, t));
            if k != t {
                v.push(DOp::TakePath(k, t));
                v.push(DOp::TakeFound(k, t));
            }
        }
    }
    v
}

#[derive(Serialize, Deserialize, Clone, Debug)]
pub struct DParams {
    pub n: usize,
    pub init: Vec<(u8, u8)>,
    pub max_handles: usize,
    pub max_edges: usize,
    pub max_depth: usize,
}

fn show_hist(n: usize, init: &[(u8, u8)], h: &[DOp]) -> String {
    format!("{} nodes, one handle each; connect {:?}; {}", n, init, h.iter().map(|o| o.show()).collect::<Vec<_>>().join("; "))
}

/// Run a history; Err = violation (class, detail).
pub fn run_history<F: Fl>(p: &DParams, h: &[DOp]) -> Result<DModel, (String, String)> {
    let r = guarded(|| -> Result<DModel, Bad> {
        let mut w = DWorld::<F>::new(p.n, &p.init);
        w.check().map_err(|(c, d)| (format!("{}/initial", c), d))?;
        for op in h.iter() {
            hassert!(w.model.enabled(op, p.max_handles + 1, p.max_edges + 1), "replayed a disabled op {:?}", op);
            w.apply(op).map_err(|(c, d)| (format!("{}/{}", c, kind(op)), d))?;
            w.check().map_err(|(c, d)| (format!("{}/after-{}", c, kind(op)), d))?;
        }
        let m = w.model.clone();
        // final: drop everything that is still held, every payload must then be released exactly once
        let reg = w.reg.clone();
        drop(w);
        for k in 0..p.n {
            if reg.dropped(k) != 1 {
                return bad("final/not-released-exactly-once", format!("after dropping every handle the value of n{} was released {} time(s)", k, reg.dropped(k)));
            }
        }
        let (made, dropped) = (reg.clones_made.load(std::sync::atomic::Ordering::SeqCst), reg.clones_dropped.load(std::sync::atomic::Ordering::SeqCst));
        if made != dropped {
            return bad("final/value-clone-leaked", format!("{} clones of node values were made, {} released", made, dropped));
        }
        Ok(m)
    });
    match r {
        Ok(Ok(m)) => Ok(m),
        Ok(Err((c, d))) => Err((c, format!("[{}]: {}", show_hist(p.n, &p.init, h), d))),
        Err(f) => Err((format!("{}/{}", f.kind(), h.last().map(kind).unwrap_or("init")), format!("[{}]: {}", show_hist(p.n, &p.init, h), f.msg()))),
    }
}

fn kind(op: &DOp) -> &'static str {
    match op {
        DOp::Clone(_) => "clone",
        DOp::NewContainer => "new-container",
        DOp::Insert(_) => "insert",
        DOp::RemoveFromContainer(_) => "remove",
        DOp::Connect(..) => "connect",
        DOp::Disconnect(..) => "disconnect",
        DOp::Isolate(_) => "isolate",
        DOp::TakeEdge(_) => "take-edge",
        DOp::TakePath(..) => "take-path",
        DOp::TakeCycle(_) => "take-cycle",
        DOp::TakeFound(..) => "take-found",
        DOp::Drop(_) => "drop",
        DOp::DropContainerElsewhere => "drop-container-elsewhere",
        DOp::Compare(..) => "compare",
        DOp::PfsTraverse(_) => "pfs-traverse",
        DOp::Lookups(_) => "lookups",
    }
}

/// One case of the large family: the hub graph `conns` on 4 nodes with
/// drop-counting values, optionally used (look-ups and searches), optionally
/// owned by a container too; then the node handles are dropped in `order`
/// (a value whose node no handle mentions any more must be released at once:
/// edges never own nodes), then the container.
#[derive(Serialize, Deserialize, Clone, Debug)]
pub struct LDCase {
    pub name: String,
    pub n: usize,
    pub conns: Vec<(u8, u8)>,
    pub used: bool,
    pub container: bool,
    pub order: Vec<u8>,
}

pub fn run_large<F: Fl>(c: &LDCase) -> Result<(), (String, String)> {
    let desc = format!("{} ({} edges on {} nodes){}{}, node handles dropped in order {:?}", c.name, c.conns.len(), c.n, if c.used { ", look-ups and searches run" } else { "" }, if c.container { ", nodes also in a container that is dropped last" } else { "" }, c.order);
    let r = guarded(|| -> Result<(), Bad> {
        if F::SYNC {
            ensure_monitor();
        }
        let reg = Arc::new(Registry::default());
        let mut nodes: Vec<Option<F::Node>> = (0..c.n).map(|k| Some(F::node(k as K, Val::tracked((k % 2) as i8, k as u8, &reg)))).collect();
        for (i, (u, v)) in c.conns.iter().enumerate() {
            F::connect(nodes[*u as usize].as_ref().unwrap(), nodes[*v as usize].as_ref().unwrap(), (i % 100) as E);
        }
        if c.used {
            for u in 0..c.n {
                let nu = nodes[u].as_ref().unwrap();
                for v in 0..c.n as K {
                    let _ = (F::is_connected(nu, v), F::find_out(nu, v), F::find_in(nu, v));
                }
                let _ = (F::deg_out(nu), F::deg_in(nu), F::edges_out(nu).len(), F::edges_in(nu).len());
                for kind in ALL_KINDS {
                    let res = if kind.is_order() { ResK::Nodes } else { ResK::Path };
                    let cfg = Cfg { kind, transpose: false, target: if kind.is_order() { None } else { Some(((u + 1) % c.n) as K) }, meth: Meth::None, res, alt: false, tt: false };
                    let _ = F::search(nu, &cfg, &mut |_| true);
                }
            }
        }
        let g = if c.container {
            let mut g = F::g_new();
            for nd in nodes.iter().flatten() {
                F::g_insert(&mut g, nd.clone());
            }
            Some(g)
        } else {
            None
        };
        for k in &c.order {
            for j in 0..c.n {
                if reg.dropped(j) != 0 && nodes[j].is_some() {
                    return bad("large/released-while-held", format!("the value of n{} was released while its handle was still held", j));
                }
            }
            nodes[*k as usize] = None;
            let want = if c.container { 0 } else { 1 };
            if reg.dropped(*k as usize) != want {
                return bad(if want == 1 { "large/not-released-when-last-handle-dropped" } else { "large/released-while-in-container" }, format!("after dropping the handle of n{} its value was released {} time(s), expected {}", k, reg.dropped(*k as usize), want));
            }
        }
        drop(g);
        for k in 0..c.n {
            if reg.dropped(k) != 1 {
                return bad("large/final-not-released-exactly-once", format!("after dropping every handle the value of n{} was released {} time(s)", k, reg.dropped(k)));
            }
        }
        let (made, dropped) = (reg.clones_made.load(std::sync::atomic::Ordering::SeqCst), reg.clones_dropped.load(std::sync::atomic::Ordering::SeqCst));
        if made != dropped {
            return bad("large/value-clone-leaked", format!("{} clones of node values were made, {} released", made, dropped));
        }
        Ok(())
    });
    match r {
        Ok(Ok(())) => Ok(()),
        Ok(Err((code, d))) => Err((code, format!("[{}]: {}", desc, d))),
        Err(f) => Err((format!("large/{}", f.kind()), format!("[{}]: {}", desc, f.msg()))),
    }
}

pub fn large_family<F: Fl>(job: &Job, dmax: usize, out: &mut Out) {
    let prop = job.property.as_str();
    let orders: Vec<Vec<u8>> = vec![vec![0, 1, 2, 3], vec![3, 2, 1, 0], vec![1, 0, 3, 2]];
    for (gi, (name, n, conns)) in crate::gsweep::hub_graphs(dmax).into_iter().enumerate() {
        if gi % job.nshards != job.shard {
            continue;
        }
        let conns: Vec<(u8, u8)> = conns.iter().map(|(u, v)| (*u as u8, *v as u8)).collect();
        for used in [false, true] {
            for container in [false, true] {
                for order in &orders {
                    crate::progress::tick();
                    let c = LDCase { name: name.clone(), n, conns: conns.clone(), used, container, order: order.clone() };
                    crate::progress::set_case(|| json!({"kind":"drops-large","flavour":F::NAME,"case":c}).to_string());
                    out.stats.inc("evaluations");
                    out.stats.inc("transitions");
                    out.stats.inc("nontrivial");
                    out.stats.inc("large_family_cases");
                    out.stats.max("max_edges_at_hub", conns.len() as u64);
                    if let Err((class, what)) = run_large::<F>(&c) {
                        out.report(Violation { property: prop.into(), engine: "drops".into(), flavour: F::NAME.into(), class, what, case: json!({"kind":"drops-large","flavour":F::NAME,"case":c}), order: (1000 + conns.len()) as u64 });
                    }
                }
            }
        }
    }
}

pub fn explore<F: Fl>(job: &Job, out: &mut Out) {
    if let Some(d) = job.params.get("large").and_then(|v| v.as_u64()) {
        return large_family::<F>(job, d as usize, out);
    }
    let p: DParams = serde_json::from_value(job.params.clone()).expect("drops params");
    let prop = job.property.as_str();
    let alpha = ops(p.n, p.max_handles);
    let mut seen: HashSet<DModel> = HashSet::new();
    let mut hist: Vec<Vec<DOp>> = vec![vec![]];
    let m0 = match run_history::<F>(&p, &[]) {
        Ok(m) => m,
        Err((class, what)) => {
            out.report(Violation { property: prop.into(), engine: "drops".into(), flavour: F::NAME.into(), class, what, case: json!({"kind":"drops","flavour":F::NAME,"params":p,"history":[]}), order: 0 });
            return;
        }
    };
    let mut models: Vec<DModel> = vec![m0.clone()];
    seen.insert(m0);
    let mut cur = 0;
    while cur < hist.len() {
        let h = hist[cur].clone();
        let m = models[cur].clone();
        cur += 1;
        crate::progress::set_case(|| json!({"kind":"drops","flavour":F::NAME,"params":p,"history":h}).to_string());
        out.stats.inc("states");
        out.stats.max("max_depth", h.len() as u64);
        if m.handles.is_empty() {
            out.stats.inc("final_states_all_handles_dropped");
        }
        if h.len() >= p.max_depth {
            continue;
        }
        for op in &alpha {
            if !m.enabled(op, p.max_handles, p.max_edges) {
                continue;
            }
            crate::progress::tick();
            let mut nh = h.clone();
            nh.push(*op);
            out.stats.inc("transitions");
            out.stats.inc("evaluations");
            if matches!(op, DOp::Drop(_) | DOp::DropContainerElsewhere | DOp::RemoveFromContainer(_)) {
                out.stats.inc("nontrivial");
            }
            match run_history::<F>(&p, &nh) {
                Ok(nm) => {
                    let released: BTreeSet<u8> = (0..p.n as u8).filter(|k| !nm.alive(*k)).collect();
                    out.stats.outcome(format!("{:?}", released));
                    if seen.insert(nm.clone()) {
                        if out.stats.samples.len() < 3 && nh.len() == 4 && !released.is_empty() {
                            out.stats.sample(json!({"history": show_hist(p.n, &p.init, &nh), "released": released}));
                        }
                        hist.push(nh);
                        models.push(nm);
                    }
                }
                Err((class, what)) => out.report(Violation {
                    property: prop.into(),
                    engine: "drops".into(),
                    flavour: F::NAME.into(),
                    class,
                    what,
                    case: json!({"kind":"drops","flavour":F::NAME,"params":p,"history":nh,"program":show_hist(p.n, &p.init, &nh)}),
                    order: nh.len() as u64,
                }),
            }
        }
    }
}

pub fn replay<F: Fl>(prop: &str, case: &Value) -> Vec<Violation> {
    let mut out = Out::new();
    if case["kind"] == "drops-large" {
        let c: LDCase = serde_json::from_value(case["case"].clone()).expect("large drops case");
        if let Err((class, what)) = run_large::<F>(&c) {
            println!("  {}", what);
            out.report(Violation { property: prop.into(), engine: "drops".into(), flavour: F::NAME.into(), class, what, case: case.clone(), order: 0 });
        }
        return out.viols.into_values().collect();
    }
    let p: DParams = serde_json::from_value(case["params"].clone()).expect("params");
    let h: Vec<DOp> = serde_json::from_value(case["history"].clone()).expect("history");
    println!("  program: {}", show_hist(p.n, &p.init, &h));
    if let Err((class, what)) = run_history::<F>(&p, &h) {
        out.report(Violation { property: prop.into(), engine: "drops".into(), flavour: F::NAME.into(), class, what, case: case.clone(), order: 0 });
    }
    out.viols.into_values().collect()
}
