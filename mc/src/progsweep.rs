//! Properties that quantify over programs (C16: type instantiations, C14:
//! macro invocations): a finite program space is generated exhaustively and
//! every program is executed through the real compiler against the working
//! tree.

use crate::report::*;
use crate::seqx::Out;
use serde_json::{json, Value};
use std::path::{Path, PathBuf};
use std::process::Command;

pub fn repo_dir() -> String {
    std::env::var("GDSL_REPO").unwrap_or_else(|_| "/repo".to_string())
}

/// Run an external command while keeping the worker watchdog alive.
fn run_cmd(cmd: &mut Command) -> std::io::Result<std::process::Output> {
    let done = std::sync::Arc::new(std::sync::atomic::AtomicBool::new(false));
    let d2 = done.clone();
    let t = std::thread::spawn(move || {
        let t0 = std::time::Instant::now();
        // external tools get 15 minutes before the watchdog may fire
        while !d2.load(std::sync::atomic::Ordering::Relaxed) && t0.elapsed().as_secs() < 900 {
            crate::progress::tick();
            std::thread::sleep(std::time::Duration::from_millis(200));
        }
    });
    let r = cmd.output();
    done.store(true, std::sync::atomic::Ordering::Relaxed);
    let _ = t.join();
    r
}

fn instantiate(template: &Path, out: &Path) {
    let s = std::fs::read_to_string(template).unwrap_or_else(|e| panic!("GDSL_MC_HARNESS: read {:?}: {}", template, e));
    std::fs::write(out, s.replace("@GDSL_REPO@", &repo_dir())).expect("write Cargo.toml");
}

fn copy_dir(src: &Path, dst: &Path) {
    std::fs::create_dir_all(dst).expect("mkdir");
    for e in std::fs::read_dir(src).expect("read_dir") {
        let e = e.expect("entry");
        let p = e.path();
        let d = dst.join(e.file_name());
        if p.is_dir() {
            copy_dir(&p, &d);
        } else {
            std::fs::copy(&p, &d).expect("copy");
        }
    }
}

fn cargo(dir: &Path, target: &Path, hooks: bool, args: &[&str]) -> std::io::Result<std::process::Output> {
    let mut c = Command::new("cargo");
    c.current_dir(dir)
        .args(args)
        .arg("--offline")
        .env("CARGO_NET_OFFLINE", "true")
        .env("CARGO_TARGET_DIR", target)
        .env("RUSTFLAGS", if hooks { "--cfg gdsl_verif -Awarnings" } else { "-Awarnings" });
    run_cmd(&mut c)
}

// ---------------------------------------------------------------------------
// C16
// ---------------------------------------------------------------------------

const CLASS_NAMES: [&str; 4] = ["Send+Sync", "Send+!Sync", "!Send+Sync", "!Send+!Sync"];

/// (file name, source, description, must_compile)
fn c16_compile_probes() -> Vec<(String, String, String, bool)> {
    let prelude = r#"
use std::fmt::Display;
use std::hash::Hash;
fn need_send<T: Send>() {}
fn need_sync<T: Sync>() {}
"#;
    let mut v = Vec::new();
    let mut i = 0;
    for fl in ["sync_digraph", "sync_ungraph"] {
        for ty in ["Node", "Edge", "Graph"] {
            // (bounds given to K, N, E; trait demanded; must compile)
            for (have, want, ok) in [
                ("Send + Sync", "send", true),
                ("Send + Sync", "sync", true),
                ("Send", "send", false),
                ("Send", "sync", false),
                ("Sync", "send", false),
                ("Sync", "sync", false),
            ] {
                i += 1;
                let src = format!(
                    "{}fn probe<K: Clone + Hash + PartialEq + Eq + Display + {h}, N: Clone + {h}, E: Clone + {h}>() {{ need_{w}::<gdsl::{fl}::{ty}<K, N, E>>(); }}\nfn main() {{ let _ = probe::<u8, u8, u8>; }}\n",
                    prelude,
                    h = have,
                    w = want,
                    fl = fl,
                    ty = ty
                );
                v.push((format!("probe_{}.rs", i), src, format!("for all K,N,E: {}: {}::{}<K,N,E>: {} {}", have, fl, ty, if want == "send" { "Send" } else { "Sync" }, if ok { "must hold" } else { "must be rejected" }), ok));
            }
        }
        // only one of the three parameters lacks a bound
        for (pi, pname) in ["K", "N", "E"].iter().enumerate() {
            for (lack, want) in [("Send", "send"), ("Sync", "send"), ("Send", "sync"), ("Sync", "sync")] {
                i += 1;
                let b = |idx: usize| if idx == pi { lack.to_string() } else { "Send + Sync".to_string() };
                let src = format!(
                    "{}fn probe<K: Clone + Hash + PartialEq + Eq + Display + {}, N: Clone + {}, E: Clone + {}>() {{ need_{}::<gdsl::{}::Node<K, N, E>>(); }}\nfn main() {{ let _ = probe::<u8, u8, u8>; }}\n",
                    prelude, b(0), b(1), b(2), want, fl
                );
                v.push((format!("probe_{}.rs", i), src, format!("for all K,N,E with {} only {}: {}::Node: {} must be rejected", pname, lack, fl, want), false));
            }
        }
    }
    for fl in ["digraph", "ungraph"] {
        for ty in ["Node", "Edge", "Graph"] {
            for want in ["send", "sync"] {
                i += 1;
                let src = format!(
                    "{}fn probe<K: Clone + Hash + PartialEq + Eq + Display + Send + Sync, N: Clone + Send + Sync, E: Clone + Send + Sync>() {{ need_{}::<gdsl::{}::{}<K, N, E>>(); }}\nfn main() {{ let _ = probe::<u8, u8, u8>; }}\n",
                    prelude, want, fl, ty
                );
                v.push((format!("probe_{}.rs", i), src, format!("for all Send+Sync K,N,E: plain {}::{}: {} must be rejected", fl, ty, want), false));
            }
        }
    }
    v
}

fn find_rlib(target: &Path) -> Option<PathBuf> {
    let deps = target.join("debug").join("deps");
    let mut best: Option<(std::time::SystemTime, PathBuf)> = None;
    for e in std::fs::read_dir(&deps).ok()? {
        let p = e.ok()?.path();
        let name = p.file_name()?.to_string_lossy().to_string();
        if name.starts_with("libgdsl-") && name.ends_with(".rlib") {
            let m = p.metadata().ok()?.modified().ok()?;
            if best.as_ref().map_or(true, |b| m > b.0) {
                best = Some((m, p));
            }
        }
    }
    best.map(|b| b.1)
}

pub fn c16(job: &Job, out: &mut Out) {
    let hooks = job.params["hooks"].as_bool().unwrap_or(true);
    let mode = if hooks { "on" } else { "off" };
    let vd = crate::verif_dir();
    let gen = PathBuf::from(format!("{}/.work/gen/c16-{}", vd, mode));
    let target = PathBuf::from(format!("{}/.work/target-probe-{}", vd, mode));
    let _ = std::fs::remove_dir_all(&gen);
    copy_dir(Path::new(&format!("{}/mc/probes/c16", vd)), &gen);
    instantiate(&gen.join("Cargo.toml.in"), &gen.join("Cargo.toml"));
    let _ = std::fs::copy(format!("{}/Cargo.lock", repo_dir()), gen.join("Cargo.lock"));
    crate::progress::set_case(|| json!({"kind":"c16","hooks":mode}).to_string());
    let o = cargo(&gen, &target, hooks, &["run", "--quiet"]).expect("run cargo");
    let mk = |class: String, what: String, row: Value| Violation {
        property: job.property.clone(),
        engine: "progsweep".into(),
        flavour: "sync".into(),
        class,
        what,
        case: json!({"kind":"c16","hooks":hooks,"row":row}),
        order: 0,
    };
    if !o.status.success() {
        // the universally quantified positive obligations are part of the
        // probe: if they do not type-check the property is violated
        let err = String::from_utf8_lossy(&o.stderr).to_string();
        if err.contains("generic_positive") || err.contains("need_send") || err.contains("need_sync") {
            out.stats.inc("evaluations");
            out.report(mk("positive-obligation-rejected".into(), format!("with Send + Sync payloads a sync type is not Send/Sync: {}", err.lines().filter(|l| l.contains("error") || l.contains("-->")).take(6).collect::<Vec<_>>().join(" | ")), json!("generic_positive")));
            return;
        }
        panic!("GDSL_MC_HARNESS: C16 probe program does not build (hooks {}): {}", mode, err.lines().take(30).collect::<Vec<_>>().join("\n"));
    }
    let txt = String::from_utf8_lossy(&o.stdout).to_string();
    let mut rows = 0;
    for l in txt.lines() {
        let f: Vec<&str> = l.split_whitespace().collect();
        if f.first() == Some(&"WIT") {
            let got: Vec<bool> = f[2..].iter().map(|x| *x == "true").collect();
            let exp = vec![true, true, true, false, false, true, false, false];
            if got != exp {
                panic!("GDSL_MC_HARNESS: witness family {} has auto traits {:?}, expected {:?}", f[1], got, exp);
            }
            continue;
        }
        if f.first() != Some(&"ROW") {
            continue;
        }
        rows += 1;
        crate::progress::tick();
        let (fl, ty, fam) = (f[1], f[2], f[3]);
        let cls: Vec<usize> = f[4..7].iter().map(|x| x.parse().unwrap()).collect();
        let (send, sync) = (f[7] == "true", f[8] == "true");
        out.stats.inc("evaluations");
        let all_ss = cls.iter().all(|c| *c == 0);
        let is_sync_flavour = fl.starts_with("sync_");
        let exp = is_sync_flavour && all_ss;
        if !all_ss {
            out.stats.inc("nontrivial");
        }
        out.stats.outcome(format!("{} {} {} {}", is_sync_flavour, all_ss, send, sync));
        if out.stats.samples.len() < 3 && cls == vec![0, 1, 0] {
            out.stats.sample(json!({"type": format!("{}::{}", fl, ty), "K": CLASS_NAMES[cls[0]], "N": CLASS_NAMES[cls[1]], "E": CLASS_NAMES[cls[2]], "is_send": send, "is_sync": sync}));
        }
        for (tr, got) in [("Send", send), ("Sync", sync)] {
            if got != exp {
                let offending: Vec<String> = ["K", "N", "E"].iter().zip(cls.iter()).filter(|(_, c)| **c != 0).map(|(p, c)| format!("{}:{}", p, CLASS_NAMES[*c])).collect();
                let class = if is_sync_flavour {
                    if got {
                        format!("{}/{}/{}-although-{}", fl, ty, tr, offending.join(","))
                    } else {
                        format!("{}/{}/not-{}-with-Send+Sync-payloads", fl, ty, tr)
                    }
                } else {
                    format!("{}/{}/plain-type-is-{}", fl, ty, tr)
                };
                out.report(mk(
                    class,
                    format!("gdsl::{}::{}<K,N,E> with K: {}, N: {}, E: {} (witness family {}): {} is {}, expected {} [hooks {}]", fl, ty, CLASS_NAMES[cls[0]], CLASS_NAMES[cls[1]], CLASS_NAMES[cls[2]], fam, tr, got, exp, mode),
                    json!(l),
                ));
            }
        }
    }
    if rows != 2 * 64 * 12 {
        panic!("GDSL_MC_HARNESS: expected {} table rows, got {}", 2 * 64 * 12, rows);
    }
    // compile-time obligations, generic over K, N, E
    let rlib = find_rlib(&target).unwrap_or_else(|| panic!("GDSL_MC_HARNESS: libgdsl rlib not found under {:?}", target));
    let pdir = gen.join("obligations");
    std::fs::create_dir_all(&pdir).expect("mkdir");
    let probes = c16_compile_probes();
    let deps = target.join("debug").join("deps");
    let handles: Vec<_> = probes
        .iter()
        .map(|(name, src, _, _)| {
            let path = pdir.join(name);
            std::fs::write(&path, src).expect("write probe");
            let (rlib, deps, pdir) = (rlib.clone(), deps.clone(), pdir.clone());
            std::thread::spawn(move || {
                let mut c = Command::new("rustc");
                c.current_dir(&pdir)
                    .args(["--edition", "2021", "--crate-type", "bin", "--emit=metadata", "-Awarnings", "--out-dir"])
                    .arg(pdir.join("out"))
                    .arg("-L")
                    .arg(format!("dependency={}", deps.display()))
                    .arg("--extern")
                    .arg(format!("gdsl={}", rlib.display()))
                    .arg(&path);
                c.output()
            })
        })
        .collect();
    for (h, (name, _, desc, must_compile)) in handles.into_iter().zip(probes.iter()) {
        crate::progress::tick();
        let o = h.join().expect("join").expect("rustc");
        let err = String::from_utf8_lossy(&o.stderr).to_string();
        out.stats.inc("evaluations");
        out.stats.inc("generic_obligations");
        out.stats.inc("nontrivial");
        let compiled = o.status.success();
        if !compiled && !err.contains("E0277") {
            panic!("GDSL_MC_HARNESS: obligation probe {} failed for an unexpected reason: {}", name, err.lines().take(12).collect::<Vec<_>>().join("\n"));
        }
        if compiled != *must_compile {
            out.report(mk(
                format!("generic-obligation/{}", desc.replace("for all ", "").replace(' ', "_")),
                format!("{}: the compiler {} it [hooks {}]", desc, if compiled { "accepted" } else { "rejected" }, mode),
                json!({"probe": name, "desc": desc}),
            ));
        }
    }
}

pub fn replay_c16(prop: &str, case: &Value) -> Vec<Violation> {
    let hooks = case["hooks"].as_bool().unwrap_or(true);
    let job = Job { property: prop.into(), engine: "progsweep".into(), flavour: "sync".into(), tier: "quick".into(), params: json!({"hooks": hooks}), shard: 0, nshards: 1, trace: false };
    let mut out = Out::new();
    c16(&job, &mut out);
    // keep only the recorded row's class family (the whole table is recomputed)
    out.viols.into_values().filter(|v| v.case["row"] == case["row"]).collect()
}
