//! Properties that quantify over programs (C16: type instantiations, C14:
//! macro invocations): a finite program space is generated exhaustively and
//! every program is executed through the real compiler against the working
//! tree.

use crate::report::*;
use crate::seqx::Out;
use serde_json::{json, Value};
use std::path::{Path, PathBuf};
use std::process::Command;

pub fn repo_dir() -> String {
    std::env::var("GDSL_REPO").unwrap_or_else(|_| "/repo".to_string())
}

/// Run an external command while keeping the worker watchdog alive.
fn run_cmd(cmd: &mut Command) -> std::io::Result<std::process::Output> {
    let done = std::sync::Arc::new(std::sync::atomic::AtomicBool::new(false));
    let d2 = done.clone();
    let t = std::thread::spawn(move || {
        let t0 = std::time::Instant::now();
        // external tools get 15 minutes before the watchdog may fire
        while !d2.load(std::sync::atomic::Ordering::Relaxed) && t0.elapsed().as_secs() < 900 {
            crate::progress::tick();
            std::thread::sleep(std::time::Duration::from_millis(200));
        }
    });
    let r = cmd.output();
    done.store(true, std::sync::atomic::Ordering::Relaxed);
    let _ = t.join();
    r
}

/// Run a command with a wall-clock limit; None if it had to be killed.
fn run_with_timeout(cmd: &mut Command, secs: u64) -> Option<std::process::Output> {
    use std::io::Read;
    let mut child = cmd.stdout(std::process::Stdio::piped()).stderr(std::process::Stdio::piped()).spawn().expect("spawn");
    let mut so = child.stdout.take().unwrap();
    let mut se = child.stderr.take().unwrap();
    let t1 = std::thread::spawn(move || {
        let mut b = Vec::new();
        let _ = so.read_to_end(&mut b);
        b
    });
    let t2 = std::thread::spawn(move || {
        let mut b = Vec::new();
        let _ = se.read_to_end(&mut b);
        b
    });
    let t0 = std::time::Instant::now();
    loop {
        crate::progress::tick();
        match child.try_wait() {
            Ok(Some(status)) => {
                return Some(std::process::Output { status, stdout: t1.join().unwrap_or_default(), stderr: t2.join().unwrap_or_default() });
            }
            Ok(None) => {
                if t0.elapsed().as_secs() >= secs {
                    let _ = child.kill();
                    let _ = child.wait();
                    let _ = t1.join();
                    let _ = t2.join();
                    return None;
                }
                std::thread::sleep(std::time::Duration::from_millis(50));
            }
            Err(_) => return None,
        }
    }
}

fn instantiate(template: &Path, out: &Path) {
    let s = std::fs::read_to_string(template).unwrap_or_else(|e| panic!("GDSL_MC_HARNESS: read {:?}: {}", template, e));
    std::fs::write(out, s.replace("@GDSL_REPO@", &repo_dir())).expect("write Cargo.toml");
}

fn copy_dir(src: &Path, dst: &Path) {
    std::fs::create_dir_all(dst).expect("mkdir");
    for e in std::fs::read_dir(src).expect("read_dir") {
        let e = e.expect("entry");
        let p = e.path();
        let d = dst.join(e.file_name());
        if p.is_dir() {
            copy_dir(&p, &d);
        } else {
            std::fs::copy(&p, &d).expect("copy");
        }
    }
}

fn cargo(dir: &Path, target: &Path, hooks: bool, args: &[&str]) -> std::io::Result<std::process::Output> {
    let mut c = Command::new("cargo");
    c.current_dir(dir)
        .args(args)
        .arg("--offline")
        .env("CARGO_NET_OFFLINE", "true")
        .env("CARGO_TARGET_DIR", target)
        .env("RUSTFLAGS", if hooks { "--cfg gdsl_verif -Awarnings" } else { "-Awarnings" });
    run_cmd(&mut c)
}

// ---------------------------------------------------------------------------
// C16
// ---------------------------------------------------------------------------

const CLASS_NAMES: [&str; 4] = ["Send+Sync", "Send+!Sync", "!Send+Sync", "!Send+!Sync"];

/// (file name, source, description, must_compile)
fn c16_compile_probes() -> Vec<(String, String, String, bool)> {
    let prelude = r#"
use std::fmt::Display;
use std::hash::Hash;
fn need_send<T: Send>() {}
fn need_sync<T: Sync>() {}
"#;
    let mut v = Vec::new();
    let mut i = 0;
    for fl in ["sync_digraph", "sync_ungraph"] {
        for ty in ["Node", "Edge", "Graph"] {
            // (bounds given to K, N, E; trait demanded; must compile)
            for (have, want, ok) in [
                ("Send + Sync", "send", true),
                ("Send + Sync", "sync", true),
                ("Send", "send", false),
                ("Send", "sync", false),
                ("Sync", "send", false),
                ("Sync", "sync", false),
            ] {
                i += 1;
                let src = format!(
                    "{}fn probe<K: Clone + Hash + PartialEq + Eq + Display + {h}, N: Clone + {h}, E: Clone + {h}>() {{ need_{w}::<gdsl::{fl}::{ty}<K, N, E>>(); }}\nfn main() {{ let _ = probe::<u8, u8, u8>; }}\n",
                    prelude,
                    h = have,
                    w = want,
                    fl = fl,
                    ty = ty
                );
                v.push((format!("probe_{}.rs", i), src, format!("for all K,N,E: {}: {}::{}<K,N,E>: {} {}", have, fl, ty, if want == "send" { "Send" } else { "Sync" }, if ok { "must hold" } else { "must be rejected" }), ok));
            }
        }
        // only one of the three parameters lacks a bound
        for (pi, pname) in ["K", "N", "E"].iter().enumerate() {
            for (lack, want) in [("Send", "send"), ("Sync", "send"), ("Send", "sync"), ("Sync", "sync")] {
                i += 1;
                let b = |idx: usize| if idx == pi { lack.to_string() } else { "Send + Sync".to_string() };
                let src = format!(
                    "{}fn probe<K: Clone + Hash + PartialEq + Eq + Display + {}, N: Clone + {}, E: Clone + {}>() {{ need_{}::<gdsl::{}::Node<K, N, E>>(); }}\nfn main() {{ let _ = probe::<u8, u8, u8>; }}\n",
                    prelude, b(0), b(1), b(2), want, fl
                );
                v.push((format!("probe_{}.rs", i), src, format!("for all K,N,E with {} only {}: {}::Node: {} must be rejected", pname, lack, fl, want), false));
            }
        }
    }
    for fl in ["digraph", "ungraph"] {
        for ty in ["Node", "Edge", "Graph"] {
            for want in ["send", "sync"] {
                i += 1;
                let src = format!(
                    "{}fn probe<K: Clone + Hash + PartialEq + Eq + Display + Send + Sync, N: Clone + Send + Sync, E: Clone + Send + Sync>() {{ need_{}::<gdsl::{}::{}<K, N, E>>(); }}\nfn main() {{ let _ = probe::<u8, u8, u8>; }}\n",
                    prelude, want, fl, ty
                );
                v.push((format!("probe_{}.rs", i), src, format!("for all Send+Sync K,N,E: plain {}::{}: {} must be rejected", fl, ty, want), false));
            }
        }
    }
    v
}

fn find_rlib(target: &Path) -> Option<PathBuf> {
    let deps = target.join("debug").join("deps");
    let mut best: Option<(std::time::SystemTime, PathBuf)> = None;
    for e in std::fs::read_dir(&deps).ok()? {
        let p = e.ok()?.path();
        let name = p.file_name()?.to_string_lossy().to_string();
        if name.starts_with("libgdsl-") && name.ends_with(".rlib") {
            let m = p.metadata().ok()?.modified().ok()?;
            if best.as_ref().map_or(true, |b| m > b.0) {
                best = Some((m, p));
            }
        }
    }
    best.map(|b| b.1)
}

pub fn c16(job: &Job, out: &mut Out) {
    let hooks = job.params["hooks"].as_bool().unwrap_or(true);
    let mode = if hooks { "on" } else { "off" };
    let vd = crate::verif_dir();
    let gen = PathBuf::from(format!("{}/.work/gen/c16-{}", vd, mode));
    let target = PathBuf::from(format!("{}/.work/target-probe-{}", vd, mode));
    let _ = std::fs::remove_dir_all(&gen);
    copy_dir(Path::new(&format!("{}/mc/probes/c16", vd)), &gen);
    instantiate(&gen.join("Cargo.toml.in"), &gen.join("Cargo.toml"));
    let _ = std::fs::copy(format!("{}/Cargo.lock", repo_dir()), gen.join("Cargo.lock"));
    crate::progress::set_case(|| json!({"kind":"c16","hooks":mode}).to_string());
    let o = cargo(&gen, &target, hooks, &["run", "--quiet"]).expect("run cargo");
    let mk = |class: String, what: String, row: Value| Violation {
        property: job.property.clone(),
        engine: "progsweep".into(),
        flavour: "sync".into(),
        class,
        what,
        case: json!({"kind":"c16","hooks":hooks,"row":row}),
        order: 0,
    };
    if !o.status.success() {
        // the universally quantified positive obligations are part of the
        // probe: if they do not type-check the property is violated
        let err = String::from_utf8_lossy(&o.stderr).to_string();
        if err.contains("generic_positive") || err.contains("need_send") || err.contains("need_sync") {
            out.stats.inc("evaluations");
            out.report(mk("positive-obligation-rejected".into(), format!("with Send + Sync payloads a sync type is not Send/Sync: {}", err.lines().filter(|l| l.contains("error") || l.contains("-->")).take(6).collect::<Vec<_>>().join(" | ")), json!("generic_positive")));
            return;
        }
        panic!("GDSL_MC_HARNESS: C16 probe program does not build (hooks {}): {}", mode, err.lines().take(30).collect::<Vec<_>>().join("\n"));
    }
    let txt = String::from_utf8_lossy(&o.stdout).to_string();
    let mut rows = 0;
    let mut vrows = 0;
    for l in txt.lines() {
        let f: Vec<&str> = l.split_whitespace().collect();
        if f.first() == Some(&"WIT") {
            let got: Vec<bool> = f[2..].iter().map(|x| *x == "true").collect();
            let exp = vec![true, true, true, false, false, true, false, false];
            if got != exp {
                panic!("GDSL_MC_HARNESS: witness family {} has auto traits {:?}, expected {:?}", f[1], got, exp);
            }
            continue;
        }
        if f.first() == Some(&"VROW") {
            // values whose types cannot be named: search builders, paths, iterators, yielded edges / nodes
            vrows += 1;
            out.stats.inc("evaluations");
            out.stats.inc("value_probes");
            let (fl, what) = (f[1], f[2]);
            let cls: Vec<usize> = f[3..6].iter().map(|x| x.parse().unwrap()).collect();
            let (send, sync) = (f[6] == "true", f[7] == "true");
            let all_ss = cls.iter().all(|c| *c == 0);
            let is_sync_flavour = fl.starts_with("sync_");
            if !all_ss {
                out.stats.inc("nontrivial");
            }
            // (only the builders that demonstrably hold a closure capturing an `Rc`: for those Send is unsound whatever the payloads)
            let builder = what.contains("builder-with-closure");
            // necessary direction only: nothing handed out by the library may cross threads when a
            // payload may not, nothing of the plain flavours ever, and a search builder that
            // holds a closure capturing an `Rc` must never be Send
            let mut wrong: Vec<&str> = Vec::new();
            if (!is_sync_flavour || !all_ss) && send {
                wrong.push("Send");
            }
            if (!is_sync_flavour || !all_ss) && sync {
                wrong.push("Sync");
            }
            if builder && send && !wrong.contains(&"Send") {
                wrong.push("Send");
            }
            for tr in wrong {
                out.report(mk(
                    format!("{}/value:{}/{}-although-it-must-not-be", fl, what, tr),
                    format!("the {} value of gdsl::{} with K: {}, N: {}, E: {} is {} [hooks {}]", what, fl, CLASS_NAMES[cls[0]], CLASS_NAMES[cls[1]], CLASS_NAMES[cls[2]], tr, mode),
                    json!({"flavour": fl, "value": what, "classes": cls}),
                ));
            }
            continue;
        }
        if f.first() != Some(&"ROW") {
            continue;
        }
        rows += 1;
        crate::progress::tick();
        let (fl, ty, fam) = (f[1], f[2], f[3]);
        let cls: Vec<usize> = f[4..7].iter().map(|x| x.parse().unwrap()).collect();
        let (send, sync) = (f[7] == "true", f[8] == "true");
        out.stats.inc("evaluations");
        let all_ss = cls.iter().all(|c| *c == 0);
        let is_sync_flavour = fl.starts_with("sync_");
        let exp = is_sync_flavour && all_ss;
        if !all_ss {
            out.stats.inc("nontrivial");
        }
        out.stats.outcome(format!("{} {} {} {}", is_sync_flavour, all_ss, send, sync));
        if out.stats.samples.len() < 3 && cls == vec![0, 1, 0] {
            out.stats.sample(json!({"type": format!("{}::{}", fl, ty), "K": CLASS_NAMES[cls[0]], "N": CLASS_NAMES[cls[1]], "E": CLASS_NAMES[cls[2]], "is_send": send, "is_sync": sync}));
        }
        for (tr, got) in [("Send", send), ("Sync", sync)] {
            if got != exp {
                let offending: Vec<String> = ["K", "N", "E"].iter().zip(cls.iter()).filter(|(_, c)| **c != 0).map(|(p, c)| format!("{}:{}", p, CLASS_NAMES[*c])).collect();
                let class = if is_sync_flavour {
                    if got {
                        format!("{}/{}/{}-although-{}", fl, ty, tr, offending.join(","))
                    } else {
                        format!("{}/{}/not-{}-with-Send+Sync-payloads", fl, ty, tr)
                    }
                } else {
                    format!("{}/{}/plain-type-is-{}", fl, ty, tr)
                };
                out.report(mk(
                    class,
                    format!("gdsl::{}::{}<K,N,E> with K: {}, N: {}, E: {} (witness family {}): {} is {}, expected {} [hooks {}]", fl, ty, CLASS_NAMES[cls[0]], CLASS_NAMES[cls[1]], CLASS_NAMES[cls[2]], fam, tr, got, exp, mode),
                    json!(l),
                ));
            }
        }
    }
    if rows != 2 * 64 * 12 {
        panic!("GDSL_MC_HARNESS: expected {} table rows, got {}", 2 * 64 * 12, rows);
    }
    if vrows != 10 * (2 * 16 + 2 * 14) {
        panic!("GDSL_MC_HARNESS: expected {} value-probe rows, got {}", 10 * (2 * 16 + 2 * 14), vrows);
    }
    // compile-time obligations, generic over K, N, E
    let rlib = find_rlib(&target).unwrap_or_else(|| panic!("GDSL_MC_HARNESS: libgdsl rlib not found under {:?}", target));
    let pdir = gen.join("obligations");
    std::fs::create_dir_all(&pdir).expect("mkdir");
    let probes = c16_compile_probes();
    let deps = target.join("debug").join("deps");
    let handles: Vec<_> = probes
        .iter()
        .map(|(name, src, _, _)| {
            let path = pdir.join(name);
            std::fs::write(&path, src).expect("write probe");
            let (rlib, deps, pdir) = (rlib.clone(), deps.clone(), pdir.clone());
            std::thread::spawn(move || {
                let mut c = Command::new("rustc");
                c.current_dir(&pdir)
                    .args(["--edition", "2021", "--crate-type", "bin", "--emit=metadata", "-Awarnings", "--out-dir"])
                    .arg(pdir.join("out"))
                    .arg("-L")
                    .arg(format!("dependency={}", deps.display()))
                    .arg("--extern")
                    .arg(format!("gdsl={}", rlib.display()))
                    .arg(&path);
                c.output()
            })
        })
        .collect();
    for (h, (name, _, desc, must_compile)) in handles.into_iter().zip(probes.iter()) {
        crate::progress::tick();
        let o = h.join().expect("join").expect("rustc");
        let err = String::from_utf8_lossy(&o.stderr).to_string();
        out.stats.inc("evaluations");
        out.stats.inc("generic_obligations");
        out.stats.inc("nontrivial");
        let compiled = o.status.success();
        if !compiled && !err.contains("E0277") {
            panic!("GDSL_MC_HARNESS: obligation probe {} failed for an unexpected reason: {}", name, err.lines().take(12).collect::<Vec<_>>().join("\n"));
        }
        if compiled != *must_compile {
            out.report(mk(
                format!("generic-obligation/{}", desc.replace("for all ", "").replace(' ', "_")),
                format!("{}: the compiler {} it [hooks {}]", desc, if compiled { "accepted" } else { "rejected" }, mode),
                json!({"probe": name, "desc": desc}),
            ));
        }
    }
}

pub fn replay_c16(prop: &str, case: &Value) -> Vec<Violation> {
    let hooks = case["hooks"].as_bool().unwrap_or(true);
    let job = Job { property: prop.into(), engine: "progsweep".into(), flavour: "sync".into(), tier: "quick".into(), params: json!({"hooks": hooks}), shard: 0, nshards: 1, trace: false };
    let mut out = Out::new();
    c16(&job, &mut out);
    // keep only the recorded row's class family (the whole table is recomputed)
    out.viols.into_values().filter(|v| v.case["row"] == case["row"]).collect()
}

// ---------------------------------------------------------------------------
// C14: construction macros
// ---------------------------------------------------------------------------

#[derive(Clone, Debug)]
pub struct Inv {
    pub mac: &'static str,
    /// 0: (K)   1: (K, N)   2: (K) => [E]   3: (K, N) => [E]
    pub form: usize,
    /// listed nodes in listing order: (key, None = list omitted, Some(targets))
    pub nodes: Vec<(u8, Option<Vec<u8>>)>,
    /// Some(NAME): every node and edge value is written as the caller-side
    /// constant `NAME` (value 77) instead of a literal - macro hygiene does not
    /// cover items, so an item the macro body declares under the same name
    /// would capture the caller's expression
    pub named: Option<String>,
}

impl Inv {
    pub fn directed(&self) -> bool {
        self.mac.ends_with("digraph")
    }
    fn node_val(k: u8) -> i64 {
        k as i64 * 10 + 1
    }
    /// Source text of the invocation and the edges in global listing order.
    pub fn source(&self) -> (String, Vec<(u8, u8, i64)>) {
        let has_n = self.form == 1 || self.form == 3;
        let has_e = self.form >= 2;
        let mut s = format!("{}![ ", self.mac);
        s += match self.form {
            0 => "(u8) ",
            1 => "(u8, i64) ",
            2 => "(u8) => [i64] ",
            _ => "(u8, i64) => [i64] ",
        };
        let mut edges = Vec::new();
        let mut ev = 0i64;
        for (k, list) in &self.nodes {
            if has_n {
                s += &format!("({}, {}) => ", k, match &self.named { Some(nm) => nm.clone(), None => Self::node_val(*k).to_string() });
            } else {
                s += &format!("({}) => ", k);
            }
            if let Some(ts) = list {
                let items: Vec<String> = ts
                    .iter()
                    .map(|t| {
                        ev += 1;
                        let shown = match &self.named { Some(nm) => nm.clone(), None => ev.to_string() };
                        if self.named.is_some() {
                            ev = 77;
                        }
                        edges.push((*k, *t, if has_e { ev } else { 0 }));
                        if has_e {
                            format!("({}, {})", t, shown)
                        } else {
                            format!("{}", t)
                        }
                    })
                    .collect();
                s += &format!("[{}] ", items.join(", "));
            }
        }
        s += "]";
        (s, edges)
    }
    /// Rust expression of the expected denotation.
    pub fn expectation(&self) -> String {
        let (_, edges) = self.source();
        let listed: Vec<u8> = self.nodes.iter().map(|n| n.0).collect();
        if let Some(bad) = edges.iter().find(|e| !listed.contains(&e.1)) {
            // the panic must name the unlisted key; how the key is quoted is the library's choice
            return format!("Exp::Panic(\"{}\")", bad.1);
        }
        let has_n = self.form == 1 || self.form == 3;
        let mut nodes = Vec::new();
        for k in &listed {
            let own: Vec<String> = edges.iter().filter(|e| e.0 == *k).map(|e| format!("({}, {})", e.1, e.2)).collect();
            let inc: Vec<String> = edges.iter().filter(|e| e.1 == *k).map(|e| format!("({}, {})", e.0, e.2)).collect();
            nodes.push(format!("({}u8, {}i64, vec![{}], vec![{}])", k, if has_n { if self.named.is_some() { 77 } else { Self::node_val(*k) } } else { 0 }, own.join(", "), inc.join(", ")));
        }
        format!("Exp::Graph({}, vec![{}])", listed.len(), nodes.join(", "))
    }
}

fn edge_list_options(keys: &[u8], max_len: usize) -> Vec<Option<Vec<u8>>> {
    let mut v: Vec<Option<Vec<u8>>> = vec![None, Some(vec![])];
    let mut frontier: Vec<Vec<u8>> = vec![vec![]];
    for _ in 0..max_len {
        let mut nx = Vec::new();
        for b in &frontier {
            for k in keys {
                let mut c = b.clone();
                c.push(*k);
                nx.push(c);
            }
        }
        for c in &nx {
            v.push(Some(c.clone()));
        }
        frontier = nx;
    }
    v
}

pub const MACROS: [&str; 4] = ["digraph", "ungraph", "sync_digraph", "sync_ungraph"];

/// Names of `const` / `static` items declared inside the macro definitions of
/// the working tree (there are none in the unchanged library).
pub fn macro_item_names() -> Vec<String> {
    let mut names: Vec<String> = Vec::new();
    for m in MACROS {
        let src = std::fs::read_to_string(format!("{}/src/{}/graph_macros.rs", repo_dir(), m)).unwrap_or_default();
        let toks: Vec<&str> = src.split(|c: char| !(c.is_alphanumeric() || c == '_')).filter(|t| !t.is_empty()).collect();
        for w in toks.windows(2) {
            if (w[0] == "const" || w[0] == "static") && w[1].chars().next().map_or(false, |c| c.is_ascii_uppercase()) && !names.contains(&w[1].to_string()) {
                names.push(w[1].to_string());
            }
        }
    }
    names
}

pub fn c14_invocations(thorough: bool) -> Vec<Inv> {
    let mut out = Vec::new();
    for mac in MACROS {
        for form in 0..4 {
            for n in 1..=3usize {
                let orders: Vec<Vec<u8>> = if n == 1 { vec![vec![0]] } else if thorough || n == 2 { vec![(0..n as u8).collect(), (0..n as u8).rev().collect()] } else { vec![(0..n as u8).collect()] };
                for order in orders {
                    let opts = edge_list_options(&order, 2);
                    let mut idx = vec![0usize; n];
                    loop {
                        let total: usize = idx.iter().map(|i| opts[*i].as_ref().map_or(0, |l| l.len())).sum();
                        if thorough || n <= 2 || total <= 2 {
                            out.push(Inv { mac, form, nodes: order.iter().zip(idx.iter()).map(|(k, i)| (*k, opts[*i].clone())).collect(), named: None });
                        }
                        let mut p = 0;
                        loop {
                            idx[p] += 1;
                            if idx[p] < opts.len() {
                                break;
                            }
                            idx[p] = 0;
                            p += 1;
                            if p == n {
                                break;
                            }
                        }
                        if p == n {
                            break;
                        }
                    }
                }
            }
            // large invocations: 20 listed nodes as chain / cycle / fan-out / fan-in / one long list
            {
                let n = 20u8;
                let chain: Vec<(u8, Option<Vec<u8>>)> = (0..n).map(|k| (k, if k + 1 < n { Some(vec![k + 1]) } else { None })).collect();
                let cycle: Vec<(u8, Option<Vec<u8>>)> = (0..n).map(|k| (k, Some(vec![(k + 1) % n]))).collect();
                let fan: Vec<(u8, Option<Vec<u8>>)> = (0..n).map(|k| (k, if k == 0 { Some((1..n).collect()) } else { Some(vec![]) })).collect();
                let fan_in: Vec<(u8, Option<Vec<u8>>)> = (0..n).rev().map(|k| (k, if k != 0 { Some(vec![0]) } else { None })).collect();
                let long: Vec<(u8, Option<Vec<u8>>)> = (0..n).map(|k| (k, if k == 10 { Some((0..n).chain((0..n).rev()).collect()) } else { None })).collect();
                for nodes in [chain, cycle, fan, fan_in, long] {
                    out.push(Inv { mac, form, nodes, named: None });
                }
            }
            // value expressions that name a caller-side constant called like an item the macro body declares
            for nm in macro_item_names() {
                out.push(Inv { mac, form, nodes: vec![(0, Some(vec![1, 0])), (1, Some(vec![0]))], named: Some(nm.clone()) });
                out.push(Inv { mac, form, nodes: vec![(0, None), (1, Some(vec![0, 1, 0]))], named: Some(nm) });
            }
            // an edge naming an unlisted key (7), at every position of a short list
            for n in 1..=2u8 {
                let keys: Vec<u8> = (0..n).collect();
                for bad_node in 0..n {
                    for list in [vec![7u8], vec![0, 7], vec![7, 0]] {
                        let nodes = keys.iter().map(|k| (*k, if *k == bad_node { Some(list.clone()) } else { Some(vec![0]) })).collect();
                        out.push(Inv { mac, form, nodes, named: None });
                    }
                }
            }
        }
    }
    out
}

const C14_PRELUDE: &str = r#"
#![allow(unused_imports, unused_variables, dead_code, unused_mut, clippy::all)]
use gdsl::*;
use std::sync::Mutex;

pub type Lst = Vec<(u8, i64)>;
#[derive(Debug)]
pub enum Exp {
    /// (number of nodes, per listed node: key, value, own listed edges in order, edges listed towards it)
    Graph(usize, Vec<(u8, i64, Lst, Lst)>),
    Panic(&'static str),
}
#[derive(Debug)]
pub struct Obs {
    pub len: usize,
    /// per listed key: None if missing, else (value, outgoing / incident list, incoming list)
    pub nodes: Vec<Option<(i64, Lst, Lst)>>,
}
pub static LAST_PANIC: Mutex<String> = Mutex::new(String::new());

pub fn catch<F: FnOnce() -> Obs + std::panic::UnwindSafe>(f: F) -> Result<Obs, String> {
    match std::panic::catch_unwind(f) {
        Ok(o) => Ok(o),
        Err(_) => Err(LAST_PANIC.lock().unwrap().clone()),
    }
}

fn multiset(l: &Lst) -> Lst {
    let mut v = l.clone();
    v.sort();
    v
}
fn is_subsequence(a: &Lst, b: &Lst) -> bool {
    let mut i = 0;
    for x in b {
        if i < a.len() && a[i] == *x {
            i += 1;
        }
    }
    i == a.len()
}

pub fn judge(directed: bool, got: &Result<Obs, String>, exp: &Exp) -> Result<(), String> {
    match (got, exp) {
        (Err(m), Exp::Panic(k)) => {
            if m.contains(k) { Ok(()) } else { Err(format!("panicked, but the message does not name the key {}: {}", k, m)) }
        }
        (Ok(o), Exp::Panic(k)) => Err(format!("expected a panic naming {}, got a graph with {} nodes", k, o.len)),
        (Err(m), Exp::Graph(..)) => Err(format!("well-formed invocation panicked: {}", m)),
        (Ok(o), Exp::Graph(n, nodes)) => {
            if o.len != *n {
                return Err(format!("graph has {} nodes, {} listed", o.len, n));
            }
            for (i, (k, val, own, inc)) in nodes.iter().enumerate() {
                let (v, out, inn) = match &o.nodes[i] {
                    Some(x) => x,
                    None => return Err(format!("listed node {} is missing", k)),
                };
                if v != val {
                    return Err(format!("node {} has value {}, listed {}", k, v, val));
                }
                if directed {
                    if out != own {
                        return Err(format!("node {} has outgoing edges {:?}, listed {:?}", k, out, own));
                    }
                    // the macros connect the listed edges in listing order, so the
                    // incoming edges of a node are in the order they were listed, too
                    if inn != inc {
                        return Err(format!("node {} has incoming edges {:?}, listed towards it (in listing order) {:?}", k, inn, inc));
                    }
                } else {
                    let mut all = own.clone();
                    all.extend(inc.iter().cloned());
                    if multiset(out) != multiset(&all) {
                        return Err(format!("node {} has incident edges {:?}, listed {:?} + towards it {:?}", k, out, own, inc));
                    }
                    if !is_subsequence(own, out) {
                        return Err(format!("node {}: own listed edges {:?} are not in listed order within {:?}", k, own, out));
                    }
                }
            }
            Ok(())
        }
    }
}

#[macro_export]
macro_rules! obs_dir {
    ($m:ident, $g:expr, $keys:expr, $nv:expr, $ev:expr) => {{
        // the macro must build a graph of its own flavour
        let g: gdsl::$m::Graph<u8, _, _> = $g;
        let nv = $nv;
        let ev = $ev;
        let mut nodes = Vec::new();
        for k in $keys.iter() {
            nodes.push(g.get(k).map(|n| {
                (
                    nv(n.value()),
                    n.iter_out().map(|e| (*e.1.key(), ev(&e.2))).collect::<Vec<(u8, i64)>>(),
                    n.iter_in().map(|e| (*e.0.key(), ev(&e.2))).collect::<Vec<(u8, i64)>>(),
                )
            }));
        }
        $crate::Obs { len: g.len(), nodes }
    }};
}
#[macro_export]
macro_rules! obs_und {
    ($m:ident, $g:expr, $keys:expr, $nv:expr, $ev:expr) => {{
        let g: gdsl::$m::Graph<u8, _, _> = $g;
        let nv = $nv;
        let ev = $ev;
        let mut nodes = Vec::new();
        for k in $keys.iter() {
            nodes.push(g.get(k).map(|n| (nv(n.value()), n.iter().map(|e| (*e.1.key(), ev(&e.2))).collect::<Vec<(u8, i64)>>(), Vec::new())));
        }
        $crate::Obs { len: g.len(), nodes }
    }};
}

pub fn run(cases: &[(&str, bool, fn() -> Result<Obs, String>, fn() -> Exp)]) {
    std::panic::set_hook(Box::new(|info| {
        let msg = if let Some(s) = info.payload().downcast_ref::<&str>() { s.to_string() } else if let Some(s) = info.payload().downcast_ref::<String>() { s.clone() } else { String::new() };
        *LAST_PANIC.lock().unwrap() = msg;
    }));
    let mut n = 0;
    for (src, directed, f, e) in cases {
        n += 1;
        let got = f();
        let exp = e();
        match judge(*directed, &got, &exp) {
            Ok(()) => println!("PASS\t{}\t{}", src, matches!(exp, Exp::Panic(_))),
            Err(why) => println!("FAIL\t{}\t{}", src, why),
        }
    }
    println!("DONE\t{}", n);
}
"#;

fn c14_case_code(i: usize, inv: &Inv) -> (String, String) {
    let (src, _) = inv.source();
    let keys: Vec<String> = inv.nodes.iter().map(|n| format!("{}u8", n.0)).collect();
    let nv = if inv.form == 1 || inv.form == 3 { "|n: &i64| *n" } else { "|_n: &()| 0i64" };
    let ev = if inv.form >= 2 { "|e: &i64| *e" } else { "|_e: &()| 0i64" };
    let obs = if inv.directed() { "obs_dir" } else { "obs_und" };
    let f = format!(
        "fn c{i}() -> Result<Obs, String> {{ catch(|| {obs}!({mac}, {src}, [{keys}], {nv}, {ev})) }}\nfn e{i}() -> Exp {{ {exp} }}\n",
        i = i,
        obs = obs,
        mac = inv.mac,
        src = src,
        keys = keys.join(", "),
        nv = nv,
        ev = ev,
        exp = inv.expectation()
    );
    let entry = format!("({:?}, {}, c{} as fn() -> Result<Obs, String>, e{} as fn() -> Exp)", src, inv.directed(), i, i);
    (f, entry)
}

/// Extra, hand-enumerated programs: the `()` arm and the *_node! / *_connect! helpers.
fn c14_helper_program() -> String {
    let mut s = String::from("use c14_cases::*;\nuse gdsl::*;\nfn main() {\n    let mut n = 0;\n");
    for mac in MACROS {
        let directed = mac.ends_with("digraph");
        s += &format!("    {{ let g = {m}![]; n += 1; if g.len() == 0 && g.is_empty() {{ println!(\"PASS\\t{m}![]\\tfalse\"); }} else {{ println!(\"FAIL\\t{m}![]\\tnot empty\"); }} }}\n", m = mac);
        s += &format!(
            "    {{ let a: gdsl::{m}::Node<u8, (), ()> = {m}_node!(5u8); let b: gdsl::{m}::Node<u8, i64, ()> = {m}_node!(6u8, 60i64); n += 1;\n      if *a.key() == 5 && *a.value() == () && *b.key() == 6 && *b.value() == 60 {{ println!(\"PASS\\t{m}_node!\\tfalse\"); }} else {{ println!(\"FAIL\\t{m}_node!\\twrong key or value\"); }} }}\n",
            m = mac
        );
        if directed {
            s += &format!(
                "    {{ let a: gdsl::{m}::Node<u8, (), ()> = {m}_node!(1u8); let b = {m}_node!(2u8); {m}_connect!(&a => &b); {m}_connect!(&a => &a); n += 1;\n      let l: Vec<u8> = a.iter_out().map(|e| *e.1.key()).collect(); let lb: Vec<u8> = b.iter_in().map(|e| *e.0.key()).collect();\n      if l == vec![2, 1] && lb == vec![1] {{ println!(\"PASS\\t{m}_connect!(a => b)\\tfalse\"); }} else {{ println!(\"FAIL\\t{m}_connect!(a => b)\\tadjacency {{:?}} / {{:?}}\", l, lb); }} }}\n",
                m = mac
            );
            s += &format!(
                "    {{ let a = gdsl::{m}::Node::<u8, i64, i64>::new(1, 10); let b = {m}_node!(2u8, 20i64); {m}_connect!(&a => &b, 7i64); {m}_connect!(&b => &a, 8i64); n += 1;\n      let l: Vec<(u8, i64)> = a.iter_out().map(|e| (*e.1.key(), e.2)).collect();\n      if l == vec![(2, 7)] {{ println!(\"PASS\\t{m}_connect!(a => b, e)\\tfalse\"); }} else {{ println!(\"FAIL\\t{m}_connect!(a => b, e)\\tadjacency {{:?}}\", l); }} }}\n",
                m = mac
            );
        } else {
            s += &format!(
                "    {{ let a: gdsl::{m}::Node<u8, (), ()> = {m}_node!(1u8); let b = {m}_node!(2u8); {m}_connect!(&a => &b); {m}_connect!(&a => &a); n += 1;\n      let mut l: Vec<u8> = a.iter().map(|e| *e.1.key()).collect(); l.sort(); let lb: Vec<u8> = b.iter().map(|e| *e.1.key()).collect();\n      if l == vec![1, 1, 2] && lb == vec![1] {{ println!(\"PASS\\t{m}_connect!(a => b)\\tfalse\"); }} else {{ println!(\"FAIL\\t{m}_connect!(a => b)\\tadjacency {{:?}} / {{:?}}\", l, lb); }} }}\n",
                m = mac
            );
            s += &format!(
                "    {{ let a = gdsl::{m}::Node::<u8, i64, i64>::new(1, 10); let b = {m}_node!(2u8, 20i64); {m}_connect!(&a => &b, 7i64); {m}_connect!(&b => &a, 8i64); n += 1;\n      let mut l: Vec<(u8, i64)> = a.iter().map(|e| (*e.1.key(), e.2)).collect(); l.sort();\n      if l == vec![(2, 7), (2, 8)] {{ println!(\"PASS\\t{m}_connect!(a => b, e)\\tfalse\"); }} else {{ println!(\"FAIL\\t{m}_connect!(a => b, e)\\tadjacency {{:?}}\", l); }} }}\n",
                m = mac
            );
        }
    }
    s += "    println!(\"DONE\\t{}\", n);\n}\n";
    s
}

pub fn c14(job: &Job, out: &mut Out) {
    let thorough = job.tier != "quick";
    let vd = crate::verif_dir();
    let gen = PathBuf::from(format!("{}/.work/gen/c14-{}", vd, job.tier));
    let target = PathBuf::from(format!("{}/.work/target-probe-on", vd));
    let _ = std::fs::remove_dir_all(&gen);
    std::fs::create_dir_all(gen.join("src/bin")).expect("mkdir");
    crate::progress::set_case(|| json!({"kind":"c14","tier":job.tier}).to_string());
    std::fs::write(
        gen.join("Cargo.toml"),
        format!(
            "[package]\nname = \"c14-cases\"\nversion = \"0.1.0\"\nedition = \"2021\"\npublish = false\n\n[lib]\npath = \"src/lib.rs\"\n\n[dependencies]\ngdsl = {{ path = \"{}\" }}\n\n[profile.dev]\ndebug = false\nopt-level = 0\nincremental = false\n\n[workspace]\n",
            repo_dir()
        ),
    )
    .expect("write");
    let _ = std::fs::copy(format!("{}/Cargo.lock", repo_dir()), gen.join("Cargo.lock"));
    std::fs::write(gen.join("src/lib.rs"), C14_PRELUDE).expect("write");
    let invs = c14_invocations(thorough);
    let nbins = if thorough { 48 } else { 16 };
    let mut bins: Vec<(String, Vec<String>)> = (0..nbins).map(|_| (String::new(), Vec::new())).collect();
    for (i, inv) in invs.iter().enumerate() {
        let (f, entry) = c14_case_code(i, inv);
        let b = &mut bins[i % nbins];
        b.0 += &f;
        b.1.push(entry);
    }
    for (bi, (fns, entries)) in bins.iter().enumerate() {
        let consts: String = macro_item_names().iter().map(|n| format!("const {}: i64 = 77;\n", n)).collect();
        let src = format!("#![allow(unused_imports, unused_variables, dead_code, unused_mut)]\nuse c14_cases::*;\nuse gdsl::*;\n{}{}\nfn main() {{\n    run(&[\n        {}\n    ]);\n}}\n", consts, fns, entries.join(",\n        "));
        std::fs::write(gen.join(format!("src/bin/shard_{}.rs", bi)), src).expect("write");
    }
    std::fs::write(gen.join("src/bin/helpers.rs"), c14_helper_program()).expect("write");
    let o = cargo(&gen, &target, true, &["build", "--bins", "--quiet"]).expect("cargo");
    if !o.status.success() {
        // A well-formed invocation that no longer compiles is a violation
        // (the property quantifies over every well-formed invocation), but
        // it cannot be told apart from a broken harness automatically:
        let err = String::from_utf8_lossy(&o.stderr).to_string();
        let first: Vec<&str> = {
            // (the bins are compiled in parallel: sorted, so that the text is the same on every run)
            let mut v: Vec<&str> = err.lines().filter(|l| l.starts_with("error[") || l.starts_with("error:")).collect();
            v.sort();
            v.dedup();
            v.into_iter().filter(|l| !l.contains("could not compile") && !l.contains("aborting due to")).take(4).collect()
        };
        out.stats.inc("evaluations");
        out.report(Violation {
            property: job.property.clone(),
            engine: "progsweep".into(),
            flavour: "macros".into(),
            class: "well-formed-invocation-does-not-compile".into(),
            what: format!("the generated macro programs do not compile against the working tree: {}", first.join(" | ")),
            case: json!({"kind":"c14","tier":job.tier,"src":"<build>"}),
            order: 0,
        });
        return;
    }
    let mut names: Vec<String> = (0..nbins).map(|i| format!("shard_{}", i)).collect();
    names.push("helpers".into());
    let mut total = 0u64;
    for name in names {
        crate::progress::tick();
        let o = match run_with_timeout(&mut Command::new(target.join("debug").join(&name)), 120) {
            Some(o) => o,
            None => {
                // the generated programs only build small graphs: not finishing is a hang inside a macro-built graph
                out.stats.inc("evaluations");
                out.report(Violation {
                    property: job.property.clone(),
                    engine: "progsweep".into(),
                    flavour: "macros".into(),
                    class: "generated-program-hangs".into(),
                    what: format!("the generated program {} (macro invocations + observation) did not finish within 120 s", name),
                    case: json!({"kind":"c14","tier":job.tier,"src":format!("<hang:{}>", name)}),
                    order: 0,
                });
                continue;
            }
        };
        let txt = String::from_utf8_lossy(&o.stdout).to_string();
        let mut done = false;
        for l in txt.lines() {
            let f: Vec<&str> = l.split('\t').collect();
            match f[0] {
                "PASS" => {
                    total += 1;
                    out.stats.inc("evaluations");
                    out.stats.inc("nontrivial");
                    if f.get(2) == Some(&"true") {
                        out.stats.inc("unlisted_key_panics_checked");
                    }
                    if out.stats.samples.len() < 3 && f[1].len() > 60 {
                        out.stats.sample(json!({"invocation": f[1], "result": "matches the denotation"}));
                    }
                    if out.stats.outcomes.len() < 2000 {
                        out.stats.outcome(crate::report::digest(f[1]));
                    }
                }
                "FAIL" => {
                    total += 1;
                    out.stats.inc("evaluations");
                    let src = f[1].to_string();
                    let mac = src.split('!').next().unwrap_or("").to_string();
                    let why = f.get(2).unwrap_or(&"").to_string();
                    let kind = why.split(|c: char| c.is_ascii_digit() || c == '[' || c == '{').next().unwrap_or("").trim().replace(' ', "-");
                    out.report(Violation {
                        property: job.property.clone(),
                        engine: "progsweep".into(),
                        flavour: "macros".into(),
                        class: format!("{}/{}/{}", mac, form_of(&src), kind),
                        what: format!("{}: {}", src, why),
                        case: json!({"kind":"c14","tier":job.tier,"src":src}),
                        order: src.len() as u64,
                    });
                }
                "DONE" => done = true,
                _ => {}
            }
        }
        if !done {
            panic!("GDSL_MC_HARNESS: generated program {} did not finish (status {:?}): {}", name, o.status, String::from_utf8_lossy(&o.stderr).lines().take(5).collect::<Vec<_>>().join(" | "));
        }
    }
    out.stats.max("invocations_generated", invs.len() as u64);
    if total < invs.len() as u64 {
        panic!("GDSL_MC_HARNESS: {} invocations generated but only {} reported", invs.len(), total);
    }
}

fn form_of(src: &str) -> &'static str {
    if src.contains("(u8, i64) => [i64]") {
        "form4:(K,N)=>[E]"
    } else if src.contains("(u8) => [i64]") {
        "form3:(K)=>[E]"
    } else if src.contains("(u8, i64)") {
        "form2:(K,N)"
    } else if src.contains("(u8)") {
        "form1:(K)"
    } else {
        "helper"
    }
}

pub fn replay_c14(prop: &str, case: &Value) -> Vec<Violation> {
    let tier = case["tier"].as_str().unwrap_or("quick").to_string();
    let job = Job { property: prop.into(), engine: "progsweep".into(), flavour: "macros".into(), tier, params: json!({}), shard: 0, nshards: 1, trace: false };
    let mut out = Out::new();
    c14(&job, &mut out);
    out.viols.into_values().filter(|v| v.case["src"] == case["src"]).collect()
}
