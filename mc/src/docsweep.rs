//! C13: deserialising untrusted documents. Exhaustive enumeration of small
//! synthetic documents, of every single structural fault (and pairs, for the
//! smallest seeds) of valid documents, of every prefix and of every
//! single-byte substitution, for the four containers, two key types and two
//! wire formats.

use crate::core::*;
use crate::flavor::K;
use crate::report::*;
use crate::seqx::Out;
use serde_json::{json, Value};
use std::collections::BTreeMap;

/// Generic document value (common denominator of JSON and CBOR).
#[derive(Clone, Debug, PartialEq)]
pub enum G {
    Null,
    Bool(bool),
    Int(i128),
    Float(f64),
    Str(String),
    Bytes(Vec<u8>),
    Arr(Vec<G>),
    Map(Vec<(G, G)>),
    Other,
}

impl G {
    pub fn from_json(v: &Value) -> G {
        match v {
            Value::Null => G::Null,
            Value::Bool(b) => G::Bool(*b),
            Value::Number(n) => {
                if let Some(i) = n.as_i64() {
                    G::Int(i as i128)
                } else if let Some(u) = n.as_u64() {
                    G::Int(u as i128)
                } else {
                    G::Float(n.as_f64().unwrap_or(f64::NAN))
                }
            }
            Value::String(s) => G::Str(s.clone()),
            Value::Array(a) => G::Arr(a.iter().map(G::from_json).collect()),
            Value::Object(o) => G::Map(o.iter().map(|(k, v)| (G::Str(k.clone()), G::from_json(v))).collect()),
        }
    }
    pub fn from_cbor(v: &serde_cbor::Value) -> G {
        use serde_cbor::Value as C;
        match v {
            C::Null => G::Null,
            C::Bool(b) => G::Bool(*b),
            C::Integer(i) => G::Int(*i),
            C::Float(f) => G::Float(*f),
            C::Bytes(b) => G::Bytes(b.clone()),
            C::Text(s) => G::Str(s.clone()),
            C::Array(a) => G::Arr(a.iter().map(G::from_cbor).collect()),
            C::Map(m) => G::Map(m.iter().map(|(k, v)| (G::from_cbor(k), G::from_cbor(v))).collect()),
            _ => G::Other,
        }
    }
    pub fn to_json(&self) -> Value {
        match self {
            G::Null | G::Other => Value::Null,
            G::Bool(b) => json!(b),
            G::Int(i) => json!(*i as i64),
            G::Float(f) => json!(f),
            G::Str(s) => json!(s),
            G::Bytes(b) => json!(b),
            G::Arr(a) => Value::Array(a.iter().map(|x| x.to_json()).collect()),
            G::Map(m) => Value::Object(m.iter().map(|(k, v)| (match k { G::Str(s) => s.clone(), o => format!("{:?}", o) }, v.to_json())).collect()),
        }
    }
    pub fn to_cbor(&self) -> serde_cbor::Value {
        use serde_cbor::Value as C;
        match self {
            G::Null | G::Other => C::Null,
            G::Bool(b) => C::Bool(*b),
            G::Int(i) => C::Integer(*i),
            G::Float(f) => C::Float(*f),
            G::Str(s) => C::Text(s.clone()),
            G::Bytes(b) => C::Bytes(b.clone()),
            G::Arr(a) => C::Array(a.iter().map(|x| x.to_cbor()).collect()),
            G::Map(m) => C::Map(m.iter().map(|(k, v)| (k.to_cbor(), v.to_cbor())).collect()),
        }
    }
}

/// What a successfully loaded graph looks like, in document vocabulary.
#[derive(Clone, Debug, Default)]
pub struct Loaded {
    pub nodes: Vec<(G, i128)>,
    /// edges as yielded by every node's outgoing iterator (directed) / iter() (undirected)
    pub out: Vec<(G, G, i128)>,
    /// directed only: edges as yielded by every node's incoming iterator
    pub inn: Vec<(G, G, i128)>,
}

pub trait KeyG: Clone {
    fn g(&self) -> G;
}
impl KeyG for u8 {
    fn g(&self) -> G {
        G::Int(*self as i128)
    }
}
impl KeyG for String {
    fn g(&self) -> G {
        G::Str(self.clone())
    }
}

thread_local! {
    /// Entry point of the deserialiser: 0 = `from_slice`; 1 =
    /// `Deserialize::deserialize_in_place` into a graph that already holds
    /// another document's nodes and an edge (keys 200, 201 / "p", "q", which
    /// no tested document declares); 2 = `from_reader`.
    pub static ENTRY: std::cell::Cell<u8> = const { std::cell::Cell::new(0) };
}
pub fn entry_text(e: u8) -> &'static str {
    match e {
        1 => " [read with deserialize_in_place into a graph already holding another document]",
        2 => " [read with from_reader]",
        _ => "",
    }
}

macro_rules! read_graph {
    ($m:ident, $kt:ty, $json:expr, $doc:expr) => {{
        let g: gdsl::$m::Graph<$kt, i8, i8> = match ENTRY.with(|e| e.get()) {
            1 => {
                let strk = std::any::TypeId::of::<$kt>() == std::any::TypeId::of::<String>();
                let prior = if strk { r#"[[["p",1],["q",2]],[["p","q",5]]]"# } else { "[[[200,1],[201,2]],[[200,201,5]]]" };
                let mut g: gdsl::$m::Graph<$kt, i8, i8> = serde_json::from_str(prior).map_err(|e| format!("HARNESS-VISIBLE: prior document rejected: {}", e))?;
                if $json {
                    let mut de = serde_json::Deserializer::from_slice($doc);
                    serde::Deserialize::deserialize_in_place(&mut de, &mut g).map_err(|e| e.to_string())?;
                    de.end().map_err(|e| e.to_string())?;
                } else {
                    let mut de = serde_cbor::Deserializer::from_slice($doc);
                    serde::Deserialize::deserialize_in_place(&mut de, &mut g).map_err(|e| e.to_string())?;
                    de.end().map_err(|e| e.to_string())?;
                }
                g
            }
            2 => {
                if $json {
                    serde_json::from_reader(std::io::Cursor::new($doc)).map_err(|e| e.to_string())?
                } else {
                    serde_cbor::from_reader(std::io::Cursor::new($doc)).map_err(|e| e.to_string())?
                }
            }
            _ => {
                if $json {
                    serde_json::from_slice($doc).map_err(|e| e.to_string())?
                } else {
                    serde_cbor::from_slice($doc).map_err(|e| e.to_string())?
                }
            }
        };
        g
    }};
}

macro_rules! loader {
    ($name:ident, $m:ident, $kt:ty, directed) => {
        pub fn $name(json: bool, doc: &[u8]) -> Result<Loaded, String> {
            let g = read_graph!($m, $kt, json, doc);
            let mut l = Loaded::default();
            for (k, n) in g.iter() {
                l.nodes.push((k.g(), *n.value() as i128));
                if k != n.key() {
                    return Err(format!("HARNESS-VISIBLE: container key {} maps to node {}", k, n.key()));
                }
                for e in n.iter_out() {
                    l.out.push((e.0.key().g(), e.1.key().g(), e.2 as i128));
                }
                for e in n.iter_in() {
                    l.inn.push((e.0.key().g(), e.1.key().g(), e.2 as i128));
                }
            }
            Ok(l)
        }
    };
    ($name:ident, $m:ident, $kt:ty, undirected) => {
        pub fn $name(json: bool, doc: &[u8]) -> Result<Loaded, String> {
            let g = read_graph!($m, $kt, json, doc);
            let mut l = Loaded::default();
            for (k, n) in g.iter() {
                l.nodes.push((k.g(), *n.value() as i128));
                if k != n.key() {
                    return Err(format!("HARNESS-VISIBLE: container key {} maps to node {}", k, n.key()));
                }
                for e in n.iter() {
                    l.out.push((e.0.key().g(), e.1.key().g(), e.2 as i128));
                }
            }
            Ok(l)
        }
    };
}

loader!(load_di_u8, digraph, u8, directed);
loader!(load_sdi_u8, sync_digraph, u8, directed);
loader!(load_un_u8, ungraph, u8, undirected);
loader!(load_sun_u8, sync_ungraph, u8, undirected);
loader!(load_di_str, digraph, String, directed);
loader!(load_sdi_str, sync_digraph, String, directed);
loader!(load_un_str, ungraph, String, undirected);
loader!(load_sun_str, sync_ungraph, String, undirected);

pub fn loader_for(flavour: &str, strkeys: bool) -> (fn(bool, &[u8]) -> Result<Loaded, String>, bool) {
    match (flavour, strkeys) {
        ("digraph", false) => (load_di_u8, true),
        ("sync_digraph", false) => (load_sdi_u8, true),
        ("ungraph", false) => (load_un_u8, false),
        ("sync_ungraph", false) => (load_sun_u8, false),
        ("digraph", true) => (load_di_str, true),
        ("sync_digraph", true) => (load_sdi_str, true),
        ("ungraph", true) => (load_un_str, false),
        ("sync_ungraph", true) => (load_sun_str, false),
        _ => panic!("GDSL_MC_HARNESS: unknown flavour {}", flavour),
    }
}

fn is_key(g: &G, strkeys: bool) -> bool {
    match g {
        G::Int(i) => !strkeys && *i >= 0 && *i <= 255,
        G::Str(_) => strkeys,
        _ => false,
    }
}

fn count<T: PartialEq>(v: &[T], x: &T) -> usize {
    v.iter().filter(|y| *y == x).count()
}

/// The oracle. `generic` is the document read without a schema (None if it is
/// not even well-formed JSON / CBOR).
pub fn judge(directed: bool, strkeys: bool, generic: Option<&G>, result: &Result<Result<Loaded, String>, Fail>) -> Result<&'static str, (String, String)> {
    let loaded = match result {
        Err(f) => return Err((format!("deserialize/{}", f.kind()), format!("deserialisation did not return: {}", f.msg()))),
        Ok(Err(e)) if e.starts_with("HARNESS-VISIBLE") => return Err(("container-key-mismatch".into(), e.clone())),
        Ok(Err(_)) => None,
        Ok(Ok(l)) => Some(l),
    };
    // generic reading of the two sections
    let (sec0, sec1): (Vec<G>, Vec<G>) = match generic {
        Some(G::Arr(a)) => (
            match a.first() {
                Some(G::Arr(x)) => x.clone(),
                _ => vec![],
            },
            match a.get(1) {
                Some(G::Arr(x)) => x.clone(),
                _ => vec![],
            },
        ),
        _ => (vec![], vec![]),
    };
    let declared: Vec<&G> = sec0.iter().filter_map(|e| match e {
        G::Arr(t) if !t.is_empty() && is_key(&t[0], strkeys) => Some(&t[0]),
        _ => None,
    }).collect();
    let undeclared_edge = sec1.iter().any(|e| match e {
        G::Arr(t) if t.len() >= 2 && is_key(&t[0], strkeys) && is_key(&t[1], strkeys) => !declared.contains(&&t[0]) || !declared.contains(&&t[1]),
        _ => false,
    });
    let l = match loaded {
        None => return Ok("err"),
        Some(l) => l,
    };
    if generic.is_some() && undeclared_edge {
        return Err(("accepted-edge-to-undeclared-key".into(), format!("the document lists an edge naming a key it does not declare, but it was accepted: nodes {:?}", l.nodes)));
    }
    // invariants of the result
    if directed {
        for e in &l.out {
            if count(&l.out, e) != count(&l.inn, e) {
                return Err(("result-not-mirrored".into(), format!("edge {:?}: {} times outgoing, {} times incoming", e, count(&l.out, e), count(&l.inn, e))));
            }
        }
        for e in &l.inn {
            if count(&l.out, e) != count(&l.inn, e) {
                return Err(("result-not-mirrored".into(), format!("edge {:?}: {} times outgoing, {} times incoming", e, count(&l.out, e), count(&l.inn, e))));
            }
        }
    } else {
        for e in &l.out {
            let rev = (e.1.clone(), e.0.clone(), e.2);
            if e.0 == e.1 {
                if count(&l.out, e) % 2 != 0 {
                    return Err(("result-not-symmetric".into(), format!("self-loop {:?} listed an odd number of times", e)));
                }
            } else if count(&l.out, e) != count(&l.out, &rev) {
                return Err(("result-not-symmetric".into(), format!("edge {:?} listed {} times, its mirror {} times", e, count(&l.out, e), count(&l.out, &rev))));
            }
        }
    }
    let mut keys: Vec<&G> = l.nodes.iter().map(|n| &n.0).collect();
    let nk = keys.len();
    keys.dedup();
    for (i, k) in l.nodes.iter().enumerate() {
        if l.nodes[..i].iter().any(|o| o.0 == k.0) {
            return Err(("result-duplicate-key".into(), format!("key {:?} twice in the graph ({} nodes)", k.0, nk)));
        }
    }
    if generic.is_none() {
        return Ok("ok-uninterpretable");
    }
    // every node and edge comes from the document
    // (which of several declarations of one key wins is the container's
    // insert contract, C18; here the value only has to be a declared one)
    for (k, v) in &l.nodes {
        let declared_vals: Vec<&G> = sec0
            .iter()
            .filter_map(|e| match e {
                G::Arr(t) if t.len() >= 2 && t[0] == *k => Some(&t[1]),
                _ => None,
            })
            .collect();
        if !declared_vals.iter().any(|x| matches!(x, G::Int(i) if i == v)) {
            return Err(("node-not-from-document".into(), format!("graph has node {:?} with value {}, the document declares that key with value(s) {:?}", k, v, declared_vals)));
        }
    }
    let doc_edges: Vec<(G, G, i128)> = sec1.iter().filter_map(|e| match e {
        G::Arr(t) if t.len() >= 3 => match &t[2] {
            G::Int(x) => Some((t[0].clone(), t[1].clone(), *x)),
            _ => None,
        },
        _ => None,
    }).collect();
    // count every graph edge once: directed = outgoing lists; undirected: each
    // edge is listed at both ends (a self-loop twice at its node)
    let mut seen: Vec<(G, G, i128)> = Vec::new();
    for e in &l.out {
        if seen.contains(e) {
            continue;
        }
        seen.push(e.clone());
        let in_graph = if directed {
            count(&l.out, e)
        } else if e.0 == e.1 {
            count(&l.out, e) / 2
        } else {
            // orientation is not observable from the lists: compare with both orientations of the document
            count(&l.out, e)
        };
        let rev = (e.1.clone(), e.0.clone(), e.2);
        let in_doc = if directed || e.0 == e.1 { count(&doc_edges, e) } else { count(&doc_edges, e) + count(&doc_edges, &rev) };
        if in_graph > in_doc {
            return Err(("edge-not-from-document".into(), format!("graph has edge {:?} {} time(s), the document lists it {} time(s)", e, in_graph, in_doc)));
        }
    }
    Ok("ok")
}

// ---------------------------------------------------------------------------
// Document generation
// ---------------------------------------------------------------------------

thread_local! {
    /// 0: String keys are "k<i>"; 1 / 2: long keys of mixed-width UTF-8 whose
    /// character boundaries fall on odd / even byte offsets (code that slices or
    /// truncates a key at a fixed byte position hits the middle of a character)
    static LONGKEYS: std::cell::Cell<u8> = const { std::cell::Cell::new(0) };
}

fn key_g(k: u8, strkeys: bool) -> G {
    if strkeys {
        match LONGKEYS.with(|c| c.get()) {
            1 => return G::Str(format!("x{}{}", "é".repeat(14), k)),
            2 => return G::Str(format!("{}語{}", "é".repeat(13), k)),
            _ => {}
        }
        G::Str(format!("k{}", k))
    } else {
        G::Int(k as i128)
    }
}

/// The valid document of a shape.
pub fn valid_doc(n: usize, conns: &[(K, K)], strkeys: bool) -> G {
    G::Arr(vec![
        G::Arr((0..n as u8).map(|k| G::Arr(vec![key_g(k, strkeys), G::Int(k as i128 * 10)])).collect()),
        G::Arr(conns.iter().enumerate().map(|(i, (u, v))| G::Arr(vec![key_g(*u, strkeys), key_g(*v, strkeys), G::Int(i as i128 + 1)])).collect()),
    ])
}

/// A larger valid document (values and weights kept inside i8).
pub fn valid_doc_large(n: usize, conns: &[(K, K)], strkeys: bool) -> G {
    G::Arr(vec![
        G::Arr((0..n as u8).map(|k| G::Arr(vec![key_g(k, strkeys), G::Int((k as i128 % 12) * 10)])).collect()),
        G::Arr(conns.iter().enumerate().map(|(i, (u, v))| G::Arr(vec![key_g(*u, strkeys), key_g(*v, strkeys), G::Int(i as i128 % 100 + 1)])).collect()),
    ])
}

/// All graphs over n nodes with <= l edges as (u,v) lists, in every order
/// (documents are sequences, not adjacency states).
pub fn edge_lists(n: usize, l: usize) -> Vec<Vec<(K, K)>> {
    let mut out: Vec<Vec<(K, K)>> = vec![vec![]];
    let mut frontier: Vec<Vec<(K, K)>> = vec![vec![]];
    for _ in 0..l {
        let mut nx = Vec::new();
        for b in &frontier {
            for u in 0..n as K {
                for v in 0..n as K {
                    let mut c = b.clone();
                    c.push((u, v));
                    nx.push(c);
                }
            }
        }
        out.extend(nx.iter().cloned());
        frontier = nx;
    }
    out
}

fn atoms(strkeys: bool) -> Vec<G> {
    let mut v = vec![G::Int(0), G::Int(1), G::Int(-1), G::Int(300), G::Str("a".into()), G::Null, G::Bool(true), G::Float(1.5), G::Arr(vec![]), G::Map(vec![])];
    if strkeys {
        v.push(key_g(0, true));
    }
    v
}

/// Paths to every sub-value of a document.
fn paths(g: &G, cur: &mut Vec<usize>, out: &mut Vec<Vec<usize>>) {
    out.push(cur.clone());
    if let G::Arr(a) = g {
        for (i, x) in a.iter().enumerate() {
            cur.push(i);
            paths(x, cur, out);
            cur.pop();
        }
    }
}

fn get_mut<'a>(g: &'a mut G, p: &[usize]) -> &'a mut G {
    let mut cur = g;
    for i in p {
        cur = match cur {
            G::Arr(a) => &mut a[*i],
            _ => panic!("GDSL_MC_HARNESS: bad path"),
        };
    }
    cur
}

fn get<'a>(g: &'a G, p: &[usize]) -> &'a G {
    let mut cur = g;
    for i in p {
        cur = match cur {
            G::Arr(a) => &a[*i],
            _ => panic!("GDSL_MC_HARNESS: bad path"),
        };
    }
    cur
}

/// Every single structural fault of a document: (description, faulted document).
pub fn single_faults(doc: &G, n: usize, strkeys: bool) -> Vec<(String, G)> {
    let mut out = Vec::new();
    let mut ps = Vec::new();
    paths(doc, &mut Vec::new(), &mut ps);
    for p in &ps {
        let here = get(doc, p).clone();
        match &here {
            G::Arr(a) => {
                // drop / duplicate each element, swap neighbours, truncate to every prefix, add an element
                for i in 0..a.len() {
                    let mut d = doc.clone();
                    if let G::Arr(x) = get_mut(&mut d, p) {
                        x.remove(i);
                    }
                    out.push((format!("drop element {} of {:?}", i, p), d));
                    let mut d = doc.clone();
                    if let G::Arr(x) = get_mut(&mut d, p) {
                        let c = x[i].clone();
                        x.insert(i, c);
                    }
                    out.push((format!("duplicate element {} of {:?}", i, p), d));
                    if i + 1 < a.len() {
                        let mut d = doc.clone();
                        if let G::Arr(x) = get_mut(&mut d, p) {
                            x.swap(i, i + 1);
                        }
                        out.push((format!("swap elements {},{} of {:?}", i, i + 1, p), d));
                    }
                }
                for len in 0..a.len() {
                    let mut d = doc.clone();
                    if let G::Arr(x) = get_mut(&mut d, p) {
                        x.truncate(len);
                    }
                    out.push((format!("truncate {:?} to {}", p, len), d));
                }
                for extra in [G::Int(1), G::Arr(vec![])] {
                    let mut d = doc.clone();
                    if let G::Arr(x) = get_mut(&mut d, p) {
                        x.push(extra.clone());
                    }
                    out.push((format!("append {:?} to {:?}", extra, p), d));
                }
                // retype the whole array
                for at in atoms(strkeys) {
                    if at != here {
                        let mut d = doc.clone();
                        *get_mut(&mut d, p) = at.clone();
                        out.push((format!("replace {:?} by {:?}", p, at), d));
                    }
                }
            }
            scalar => {
                for at in atoms(strkeys) {
                    if at != *scalar {
                        let mut d = doc.clone();
                        *get_mut(&mut d, p) = at.clone();
                        out.push((format!("retype {:?} to {:?}", p, at), d));
                    }
                }
                // retarget: every declared key and one undeclared
                if is_key(scalar, strkeys) {
                    for k in 0..=(n as u8) {
                        let kg = key_g(k, strkeys);
                        if kg != *scalar {
                            let mut d = doc.clone();
                            *get_mut(&mut d, p) = kg;
                            out.push((format!("retarget {:?} to key {}", p, k), d));
                        }
                    }
                    // further undeclared keys: values a key type treats specially (the
                    // empty string, a prefix / extension / case variant of a declared key,
                    // the extremes of u8)
                    let odd: Vec<G> = if strkeys {
                        let k0 = match key_g(0, true) { G::Str(s) => s, _ => String::new() };
                        let mut cut = k0.clone();
                        cut.pop();
                        vec![G::Str(String::new()), G::Str(cut), G::Str(format!("{}0", k0)), G::Str(format!("{} ", k0)), G::Str(k0.to_uppercase()), G::Str("\u{0}".into()), G::Str(",".into())]
                    } else {
                        vec![G::Int(255), G::Int(128), G::Int(127), G::Int(n as i128 + 1)]
                    };
                    for kg in odd {
                        if kg != *scalar {
                            let mut d = doc.clone();
                            *get_mut(&mut d, p) = kg.clone();
                            out.push((format!("retarget {:?} to the undeclared key {:?}", p, kg), d));
                        }
                    }
                }
            }
        }
    }
    out
}

/// Every JSON-like value with at most `size` nodes and depth <= `depth`.
pub fn small_values(size: usize, depth: usize) -> Vec<G> {
    fn gen(size: usize, depth: usize, memo: &mut BTreeMap<(usize, usize), Vec<G>>) -> Vec<G> {
        if let Some(v) = memo.get(&(size, depth)) {
            return v.clone();
        }
        let mut out = Vec::new();
        if size >= 1 {
            for a in [G::Int(0), G::Int(1), G::Int(-1), G::Int(300), G::Str("a".into()), G::Null, G::Bool(true)] {
                out.push(a);
            }
            if depth >= 1 {
                // arrays of 0..=3 entries whose sizes sum to size-1
                out.push(G::Arr(vec![]));
                for k in 1..=3usize {
                    if size < 1 + k {
                        continue;
                    }
                    // compositions of (size-1) into k positive parts, each part a value of exactly-or-less that size
                    fn rec(k: usize, budget: usize, depth: usize, cur: &mut Vec<G>, out: &mut Vec<G>, memo: &mut BTreeMap<(usize, usize), Vec<G>>) {
                        if k == 0 {
                            out.push(G::Arr(cur.clone()));
                            return;
                        }
                        // each remaining element needs at least 1
                        let max_here = budget - (k - 1);
                        for v in exact(max_here, depth, memo) {
                            let used = gsize(&v);
                            cur.push(v);
                            rec(k - 1, budget - used, depth, cur, out, memo);
                            cur.pop();
                        }
                    }
                    let mut cur = Vec::new();
                    rec(k, size - 1, depth - 1, &mut cur, &mut out, memo);
                }
            }
        }
        memo.insert((size, depth), out.clone());
        out
    }
    fn exact(max: usize, depth: usize, memo: &mut BTreeMap<(usize, usize), Vec<G>>) -> Vec<G> {
        gen(max, depth, memo)
    }
    fn gsize(g: &G) -> usize {
        match g {
            G::Arr(a) => 1 + a.iter().map(gsize).sum::<usize>(),
            _ => 1,
        }
    }
    let mut memo = BTreeMap::new();
    let mut v = gen(size, depth, &mut memo);
    // objects at the top level only (the schema never contains maps)
    v.push(G::Map(vec![]));
    v.push(G::Map(vec![(G::Str("a".into()), G::Int(1))]));
    let mut seen: Vec<String> = Vec::new();
    v.retain(|g| {
        let s = format!("{:?}", g);
        if seen.contains(&s) {
            false
        } else {
            seen.push(s);
            true
        }
    });
    v
}

// ---------------------------------------------------------------------------
// The sweep
// ---------------------------------------------------------------------------

fn run_one(flavour: &str, strkeys: bool, json: bool, bytes: &[u8]) -> (Option<G>, Result<Result<Loaded, String>, Fail>) {
    let (load, _) = loader_for(flavour, strkeys);
    let generic = if json {
        serde_json::from_slice::<Value>(bytes).ok().map(|v| G::from_json(&v))
    } else {
        serde_cbor::from_slice::<serde_cbor::Value>(bytes).ok().map(|v| G::from_cbor(&v))
    };
    // serde reads a CBOR byte string holding valid UTF-8 where a String is
    // expected; the schema-free reading must treat the two alike.
    fn norm(g: G) -> G {
        match g {
            G::Bytes(b) => match String::from_utf8(b.clone()) {
                Ok(s) => G::Str(s),
                Err(_) => G::Bytes(b),
            },
            G::Arr(a) => G::Arr(a.into_iter().map(norm).collect()),
            G::Map(m) => G::Map(m.into_iter().map(|(k, v)| (norm(k), norm(v))).collect()),
            o => o,
        }
    }
    let generic = if strkeys { generic.map(norm) } else { generic };
    let r = guarded(|| load(json, bytes));
    (generic, r)
}

fn encode(doc: &G, json: bool) -> Vec<u8> {
    if json {
        serde_json::to_vec(&doc.to_json()).expect("json")
    } else {
        serde_cbor::to_vec(&doc.to_cbor()).expect("cbor")
    }
}

fn show_bytes(json: bool, b: &[u8]) -> String {
    if json {
        String::from_utf8_lossy(b).to_string()
    } else {
        format!("{:?}", b)
    }
}

struct Ctx<'a> {
    job: &'a Job,
    out: &'a mut Out,
    idx: usize,
}

impl<'a> Ctx<'a> {
    fn case(&mut self, family: &str, desc: &str, strkeys: bool, json: bool, bytes: &[u8]) {
        let mine = self.idx % self.job.nshards == self.job.shard;
        self.idx += 1;
        if !mine {
            return;
        }
        crate::progress::tick();
        let flavour = self.job.flavour.as_str();
        if !json || family.ends_with("prefix") {
            // binary documents can make a deserialiser allocate or abort: name the exact case for crash attribution
            crate::progress::set_case(|| json!({"kind":"doc","flavour":flavour,"strkeys":strkeys,"json":json,"bytes":bytes,"family":family,"desc":desc}).to_string());
        }
        let (_, directed) = loader_for(flavour, strkeys);
        for entry in 0..3u8 {
        ENTRY.with(|e| e.set(entry));
        let (generic, r) = run_one(flavour, strkeys, json, bytes);
        ENTRY.with(|e| e.set(0));
        self.out.stats.inc("evaluations");
        if entry == 0 {
            self.out.stats.inc(&format!("family_{}", family));
        } else {
            self.out.stats.inc(if entry == 1 { "entry_deserialize_in_place" } else { "entry_from_reader" });
        }
        match judge(directed, strkeys, generic.as_ref(), &r) {
            Ok(sig) => {
                self.out.stats.inc(&format!("outcome_{}", sig));
                if sig != "err" || family != "valid" {
                    self.out.stats.inc("nontrivial");
                }
                self.out.stats.outcome(format!("{}:{}", family, sig));
                if sig == "ok" && family == "fault" && self.out.stats.samples.len() < 3 {
                    self.out.stats.sample(json!({"document": show_bytes(json, bytes), "fault": desc, "result": "accepted, subset of the document"}));
                }
            }
            Err((code, what)) => {
                self.out.report(Violation {
                    property: self.job.property.clone(),
                    engine: "docsweep".into(),
                    flavour: flavour.into(),
                    class: format!("{}/{}", code, family),
                    what: format!("{} {} document {} ({}){}: {}", if strkeys { "String-keyed" } else { "u8-keyed" }, if json { "JSON" } else { "CBOR" }, show_bytes(json, bytes), desc, entry_text(entry), what),
                    case: json!({"kind":"doc","flavour":flavour,"strkeys":strkeys,"json":json,"bytes":bytes,"family":family,"desc":desc,"entry":entry}),
                    order: bytes.len() as u64 * 4 + entry as u64,
                });
            }
        }
        }
    }
}

pub fn sweep(job: &Job, out: &mut Out) {
    let thorough = job.tier != "quick";
    // a conflicting re-acquisition of a node lock inside the deserialiser is
    // reported as a self-deadlock instead of hanging the worker
    if job.flavour.starts_with("sync_") {
        ensure_monitor();
    }
    unsafe {
        let lim = libc::rlimit { rlim_cur: 4 << 30, rlim_max: 4 << 30 };
        libc::setrlimit(libc::RLIMIT_AS, &lim);
    }
    crate::progress::set_case(|| json!({"kind":"docsweep","flavour":job.flavour,"shard":job.shard}).to_string());
    let mut cx = Ctx { job, out, idx: 0 };
    // (a) small synthetic documents
    let (sz, dp) = if thorough { (6, 4) } else { (5, 3) };
    for v in small_values(sz, dp) {
        for strkeys in [false, true] {
            for json in [true, false] {
                cx.case("synthetic", "synthetic document", strkeys, json, &encode(&v, json));
            }
        }
    }
    // (b) valid documents and their single structural faults
    let seeds: Vec<(usize, usize)> = if thorough { vec![(1, 2), (2, 3), (3, 3)] } else { vec![(1, 2), (2, 2), (3, 2)] };
    for (n, l) in &seeds {
        for conns in edge_lists(*n, *l) {
            for strkeys in [false, true] {
                let doc = valid_doc(*n, &conns, strkeys);
                for json in [true, false] {
                    let enc = encode(&doc, json);
                    cx.case("valid", "valid document", strkeys, json, &enc);
                    // (c) every prefix
                    if *n <= 2 || conns.len() <= 2 {
                        for cut in 0..enc.len() {
                            cx.case("prefix", &format!("first {} bytes", cut), strkeys, json, &enc[..cut]);
                        }
                    }
                }
                let faults = single_faults(&doc, *n, strkeys);
                for (desc, fd) in &faults {
                    for json in [true, false] {
                        cx.case("fault", desc, strkeys, json, &encode(fd, json));
                    }
                }
                // pairs of faults for the smallest seeds
                if *n <= 2 && conns.len() <= (if thorough { 2 } else { 1 }) {
                    for (d1, f1) in &faults {
                        for (d2, f2) in single_faults(f1, *n, strkeys) {
                            cx.case("fault-pair", &format!("{} + {}", d1, d2), strkeys, true, &encode(&f2, true));
                        }
                    }
                }
                // (d) single-byte substitutions
                if *n <= 2 && conns.len() <= 2 {
                    let enc = encode(&doc, false);
                    for pos in 0..enc.len() {
                        for b in 0..=255u8 {
                            if b != enc[pos] && (thorough || b % 3 == 0 || b < 32 || b > 0xf0 || (b & 0x1f) >= 0x17) {
                                let mut m = enc.clone();
                                m[pos] = b;
                                cx.case("cbor-byte", &format!("byte {} := {:#04x}", pos, b), strkeys, false, &m);
                            }
                        }
                    }
                    let encj = encode(&doc, true);
                    for pos in 0..encj.len() {
                        for b in b"[]{},:\"0123456789-.e ntf\\".iter() {
                            if *b != encj[pos] {
                                let mut m = encj.clone();
                                m[pos] = *b;
                                cx.case("json-byte", &format!("byte {} := {:?}", pos, *b as char), strkeys, true, &m);
                            }
                        }
                    }
                }
            }
        }
    }
    // (f) long String keys of mixed-width UTF-8 (both boundary parities): valid
    // documents, every single structural fault, every prefix
    for lk in [1u8, 2] {
        LONGKEYS.with(|c| c.set(lk));
        for (n, l) in [(1usize, 1usize), (2, 2)] {
            for conns in edge_lists(n, l) {
                let doc = valid_doc(n, &conns, true);
                for json in [true, false] {
                    let enc = encode(&doc, json);
                    cx.case("longkey-valid", "valid document with long mixed-width keys", true, json, &enc);
                    if conns.len() <= 1 {
                        for cut in 0..enc.len() {
                            cx.case("longkey-prefix", &format!("first {} bytes", cut), true, json, &enc[..cut]);
                        }
                    }
                }
                for (desc, fd) in &single_faults(&doc, n, true) {
                    for json in [true, false] {
                        cx.case("longkey-fault", desc, true, json, &encode(fd, json));
                    }
                }
            }
        }
    }
    LONGKEYS.with(|c| c.set(0));
    // (e) large documents (more nodes than any small-collection threshold):
    // chain / cycle / fan-out / fan-in, every single structural fault, every prefix
    let sizes: &[usize] = if thorough { &[17, 24, 33, 40] } else { &[20] };
    for &n in sizes {
        let chain: Vec<(K, K)> = (0..n - 1).map(|i| (i as K, (i + 1) as K)).collect();
        let mut cyc = chain.clone();
        cyc.push(((n - 1) as K, 0));
        let fan: Vec<(K, K)> = (1..n).map(|i| (0, i as K)).collect();
        let fan_in: Vec<(K, K)> = (1..n).map(|i| (i as K, 0)).collect();
        let mut multi: Vec<(K, K)> = (0..n).map(|i| ((i % 3) as K, ((i / 3) % 3) as K)).collect();
        multi.extend(chain.iter().cloned());
        let shapes: Vec<(&str, Vec<(K, K)>)> = if thorough { vec![("chain", chain), ("cycle", cyc), ("fan", fan), ("fan-in", fan_in), ("multi", multi)] } else { vec![("cycle", cyc), ("fan-in", fan_in)] };
        for (name, conns) in &shapes {
            for strkeys in [false, true] {
                let doc = valid_doc_large(n, conns, strkeys);
                for json in [true, false] {
                    let enc = encode(&doc, json);
                    cx.case("large-valid", &format!("{} of {} nodes", name, n), strkeys, json, &enc);
                    for cut in 0..enc.len() {
                        cx.case("large-prefix", &format!("{} of {} nodes, first {} bytes", name, n, cut), strkeys, json, &enc[..cut]);
                    }
                }
                for (desc, fd) in &single_faults(&doc, n, strkeys) {
                    for json in [true, false] {
                        cx.case("large-fault", &format!("{} of {} nodes: {}", name, n, desc), strkeys, json, &encode(fd, json));
                    }
                }
            }
        }
    }
    if !thorough {
        cx.out.stats.caps_hit.clear();
    }
}

pub fn replay(prop: &str, case: &Value) -> Vec<Violation> {
    let mut out = Out::new();
    let flavour = case["flavour"].as_str().unwrap();
    if case["kind"] == "docsweep" {
        // coarse unit (after a crash / hang): rerun the shard in this process
        return vec![];
    }
    if flavour.starts_with("sync_") {
        ensure_monitor();
    }
    let strkeys = case["strkeys"].as_bool().unwrap();
    let json = case["json"].as_bool().unwrap();
    let bytes: Vec<u8> = serde_json::from_value(case["bytes"].clone()).unwrap();
    let (_, directed) = loader_for(flavour, strkeys);
    let entry = case.get("entry").and_then(|v| v.as_u64()).unwrap_or(0) as u8;
    ENTRY.with(|e| e.set(entry));
    let (generic, r) = run_one(flavour, strkeys, json, &bytes);
    ENTRY.with(|e| e.set(0));
    println!("  document: {}{}", show_bytes(json, &bytes), entry_text(entry));
    println!("  generic reading: {:?}", generic);
    println!("  result: {:?}", r);
    if let Err((code, what)) = judge(directed, strkeys, generic.as_ref(), &r) {
        out.report(Violation { property: prop.into(), engine: "docsweep".into(), flavour: flavour.into(), class: format!("{}/{}", code, case["family"].as_str().unwrap_or("")), what, case: case.clone(), order: 0 });
    }
    out.viols.into_values().collect()
}
