//! C16 probe table. For every assignment of the three payload type
//! parameters to the four auto-trait classes (two structurally different
//! witnesses per class) and every public node / edge / graph type of the four
//! flavours, the compiler's trait solver decides `T: Send` and `T: Sync`; the
//! answers are turned into constants with the inherent-const-shadows-trait-
//! const idiom and printed as a table that the harness judges.
#![allow(dead_code)]
use std::cell::Cell;
use std::fmt;
use std::hash::{Hash, Hasher};
use std::marker::PhantomData;
use std::rc::Rc;
use std::sync::MutexGuard;

struct W<T: ?Sized>(PhantomData<T>);
trait Fallback {
    const SEND: bool = false;
    const SYNC: bool = false;
}
impl<T: ?Sized> Fallback for W<T> {}
impl<T: ?Sized + Send> W<T> {
    const SEND: bool = true;
}
impl<T: ?Sized + Sync> W<T> {
    const SYNC: bool = true;
}

macro_rules! witness {
    ($name:ident, $field:ty, $mk:expr) => {
        pub struct $name(pub u8, pub $field);
        impl Clone for $name {
            fn clone(&self) -> Self {
                $name(self.0, $mk)
            }
        }
        impl PartialEq for $name {
            fn eq(&self, o: &Self) -> bool {
                self.0 == o.0
            }
        }
        impl Eq for $name {}
        impl Hash for $name {
            fn hash<H: Hasher>(&self, h: &mut H) {
                self.0.hash(h)
            }
        }
        impl PartialOrd for $name {
            fn partial_cmp(&self, o: &Self) -> Option<std::cmp::Ordering> {
                Some(self.0.cmp(&o.0))
            }
        }
        impl Ord for $name {
            fn cmp(&self, o: &Self) -> std::cmp::Ordering {
                self.0.cmp(&o.0)
            }
        }
        impl fmt::Display for $name {
            fn fmt(&self, f: &mut fmt::Formatter) -> fmt::Result {
                write!(f, "{}", self.0)
            }
        }
    };
}

// class 0: Send + Sync
witness!(A0, PhantomData<u8>, PhantomData);
witness!(B0, u16, 0);
// class 1: Send + !Sync
witness!(A1, PhantomData<Cell<u8>>, PhantomData);
witness!(B1, Cell<u8>, Cell::new(0));
// class 2: !Send + Sync
witness!(A2, PhantomData<MutexGuard<'static, u8>>, PhantomData);
pub struct RawSync(*const u8);
unsafe impl Sync for RawSync {}
witness!(B2, RawSync, RawSync(std::ptr::null()));
// class 3: !Send + !Sync
witness!(A3, PhantomData<Rc<u8>>, PhantomData);
witness!(B3, *const u8, std::ptr::null());

// Universally quantified positive obligations: must type-check for every
// K, N, E that are Send + Sync (the compiler checks the generic body once).
fn need_send<T: Send>() {}
fn need_sync<T: Sync>() {}
fn generic_positive<K, N, E>()
where
    K: Clone + Hash + PartialEq + Eq + fmt::Display + Send + Sync,
    N: Clone + Send + Sync,
    E: Clone + Send + Sync,
{
    need_send::<gdsl::sync_digraph::Node<K, N, E>>();
    need_sync::<gdsl::sync_digraph::Node<K, N, E>>();
    need_send::<gdsl::sync_digraph::Edge<K, N, E>>();
    need_sync::<gdsl::sync_digraph::Edge<K, N, E>>();
    need_send::<gdsl::sync_digraph::Graph<K, N, E>>();
    need_sync::<gdsl::sync_digraph::Graph<K, N, E>>();
    need_send::<gdsl::sync_ungraph::Node<K, N, E>>();
    need_sync::<gdsl::sync_ungraph::Node<K, N, E>>();
    need_send::<gdsl::sync_ungraph::Edge<K, N, E>>();
    need_sync::<gdsl::sync_ungraph::Edge<K, N, E>>();
    need_send::<gdsl::sync_ungraph::Graph<K, N, E>>();
    need_sync::<gdsl::sync_ungraph::Graph<K, N, E>>();
}

macro_rules! row {
    ($flavour:ident, $ty:ident, $k:ty, $n:ty, $e:ty, $kc:expr, $nc:expr, $ec:expr, $fam:expr) => {
        println!(
            "ROW {} {} {} {} {} {} {} {}",
            stringify!($flavour),
            stringify!($ty),
            $fam,
            $kc,
            $nc,
            $ec,
            <W<gdsl::$flavour::$ty<$k, $n, $e>>>::SEND,
            <W<gdsl::$flavour::$ty<$k, $n, $e>>>::SYNC
        );
    };
}

macro_rules! rows_for {
    ($k:ty, $n:ty, $e:ty, $kc:expr, $nc:expr, $ec:expr, $fam:expr) => {
        row!(sync_digraph, Node, $k, $n, $e, $kc, $nc, $ec, $fam);
        row!(sync_digraph, Edge, $k, $n, $e, $kc, $nc, $ec, $fam);
        row!(sync_digraph, Graph, $k, $n, $e, $kc, $nc, $ec, $fam);
        row!(sync_ungraph, Node, $k, $n, $e, $kc, $nc, $ec, $fam);
        row!(sync_ungraph, Edge, $k, $n, $e, $kc, $nc, $ec, $fam);
        row!(sync_ungraph, Graph, $k, $n, $e, $kc, $nc, $ec, $fam);
        row!(digraph, Node, $k, $n, $e, $kc, $nc, $ec, $fam);
        row!(digraph, Edge, $k, $n, $e, $kc, $nc, $ec, $fam);
        row!(digraph, Graph, $k, $n, $e, $kc, $nc, $ec, $fam);
        row!(ungraph, Node, $k, $n, $e, $kc, $nc, $ec, $fam);
        row!(ungraph, Edge, $k, $n, $e, $kc, $nc, $ec, $fam);
        row!(ungraph, Graph, $k, $n, $e, $kc, $nc, $ec, $fam);
    };
}

macro_rules! e_loop {
    ($k:ty, $n:ty, $kc:expr, $nc:expr, $fam:expr, $e0:ty, $e1:ty, $e2:ty, $e3:ty) => {
        rows_for!($k, $n, $e0, $kc, $nc, 0, $fam);
        rows_for!($k, $n, $e1, $kc, $nc, 1, $fam);
        rows_for!($k, $n, $e2, $kc, $nc, 2, $fam);
        rows_for!($k, $n, $e3, $kc, $nc, 3, $fam);
    };
}

macro_rules! n_loop {
    ($k:ty, $kc:expr, $fam:expr, $t0:ty, $t1:ty, $t2:ty, $t3:ty) => {
        e_loop!($k, $t0, $kc, 0, $fam, $t0, $t1, $t2, $t3);
        e_loop!($k, $t1, $kc, 1, $fam, $t0, $t1, $t2, $t3);
        e_loop!($k, $t2, $kc, 2, $fam, $t0, $t1, $t2, $t3);
        e_loop!($k, $t3, $kc, 3, $fam, $t0, $t1, $t2, $t3);
    };
}

macro_rules! k_loop {
    ($fam:expr, $t0:ty, $t1:ty, $t2:ty, $t3:ty) => {
        n_loop!($t0, 0, $fam, $t0, $t1, $t2, $t3);
        n_loop!($t1, 1, $fam, $t0, $t1, $t2, $t3);
        n_loop!($t2, 2, $fam, $t0, $t1, $t2, $t3);
        n_loop!($t3, 3, $fam, $t0, $t1, $t2, $t3);
    };
}

// ---------------------------------------------------------------------------
// Value probes: the search builders, paths and iterators live in private
// modules and cannot be named, so their auto traits are asked of *values*
// (autoref dispatch: the inherent method exists only when the bound holds).
// ---------------------------------------------------------------------------
struct V<T>(PhantomData<T>);
fn v_of<T>(_: &T) -> V<T> {
    V(PhantomData)
}
fn v_of_opt<T>(_: &Option<T>) -> V<T> {
    V(PhantomData)
}
trait FbSend {
    fn is_send(&self) -> bool {
        false
    }
}
trait FbSync {
    fn is_sync(&self) -> bool {
        false
    }
}
impl<T> FbSend for &V<T> {}
impl<T> FbSync for &V<T> {}
impl<T: Send> V<T> {
    fn is_send(&self) -> bool {
        true
    }
}
impl<T: Sync> V<T> {
    fn is_sync(&self) -> bool {
        true
    }
}

macro_rules! vrow {
    ($fl:expr, $what:expr, $kc:expr, $nc:expr, $ec:expr, $v:expr) => {{
        let v = $v;
        println!("VROW {} {} {} {} {} {} {}", $fl, $what, $kc, $nc, $ec, (&v).is_send(), (&v).is_sync());
    }};
}

macro_rules! vrows_directed {
    ($m:ident, $k:expr, $n:expr, $e:expr, $kc:expr, $nc:expr, $ec:expr) => {{
        use gdsl::$m::*;
        let fl = stringify!($m);
        let a = Node::new($k, $n);
        let b = Node::new($k, $n);
        a.connect(&b, $e);
        let guard = Rc::new(0u8);
        let mut cb = |_e: &Edge<_, _, _>| {
            let _ = &guard;
        };
        vrow!(fl, "bfs-builder", $kc, $nc, $ec, v_of(&a.bfs()));
        vrow!(fl, "dfs-builder", $kc, $nc, $ec, v_of(&a.dfs()));
        vrow!(fl, "pfs-builder", $kc, $nc, $ec, v_of(&a.pfs()));
        vrow!(fl, "preorder-builder", $kc, $nc, $ec, v_of(&a.preorder()));
        vrow!(fl, "postorder-builder", $kc, $nc, $ec, v_of(&a.postorder()));
        vrow!(fl, "bfs-builder-with-closure", $kc, $nc, $ec, v_of(&a.bfs().for_each(&mut cb)));
        vrow!(fl, "dfs-builder-with-closure", $kc, $nc, $ec, v_of(&a.dfs().for_each(&mut cb)));
        vrow!(fl, "pfs-builder-with-closure", $kc, $nc, $ec, v_of(&a.pfs().for_each(&mut cb)));
        vrow!(fl, "preorder-builder-with-closure", $kc, $nc, $ec, v_of(&a.preorder().for_each(&mut cb)));
        vrow!(fl, "path", $kc, $nc, $ec, v_of_opt(&a.bfs().search_cycle()));
        vrow!(fl, "iter_out", $kc, $nc, $ec, v_of(&a.iter_out()));
        vrow!(fl, "iter_in", $kc, $nc, $ec, v_of(&a.iter_in()));
        vrow!(fl, "into_iter", $kc, $nc, $ec, v_of(&(&a).into_iter()));
        vrow!(fl, "yielded-edge", $kc, $nc, $ec, v_of_opt(&a.iter_out().next()));
        vrow!(fl, "found-node", $kc, $nc, $ec, v_of_opt(&a.find_outbound(b.key())));
        vrow!(fl, "node-vec", $kc, $nc, $ec, v_of(&a.preorder().search_nodes()));
    }};
}

macro_rules! vrows_undirected {
    ($m:ident, $k:expr, $n:expr, $e:expr, $kc:expr, $nc:expr, $ec:expr) => {{
        use gdsl::$m::*;
        let fl = stringify!($m);
        let a = Node::new($k, $n);
        let b = Node::new($k, $n);
        a.connect(&b, $e);
        let guard = Rc::new(0u8);
        let mut cb = |_e: &Edge<_, _, _>| {
            let _ = &guard;
        };
        vrow!(fl, "bfs-builder", $kc, $nc, $ec, v_of(&a.bfs()));
        vrow!(fl, "dfs-builder", $kc, $nc, $ec, v_of(&a.dfs()));
        vrow!(fl, "pfs-builder", $kc, $nc, $ec, v_of(&a.pfs()));
        vrow!(fl, "order-builder", $kc, $nc, $ec, v_of(&a.order()));
        vrow!(fl, "bfs-builder-with-closure", $kc, $nc, $ec, v_of(&a.bfs().for_each(&mut cb)));
        vrow!(fl, "dfs-builder-with-closure", $kc, $nc, $ec, v_of(&a.dfs().for_each(&mut cb)));
        vrow!(fl, "pfs-builder-with-closure", $kc, $nc, $ec, v_of(&a.pfs().for_each(&mut cb)));
        vrow!(fl, "order-builder-with-closure", $kc, $nc, $ec, v_of(&a.order().for_each(&mut cb)));
        vrow!(fl, "path", $kc, $nc, $ec, v_of_opt(&a.bfs().search_cycle()));
        vrow!(fl, "iter", $kc, $nc, $ec, v_of(&a.iter()));
        vrow!(fl, "into_iter", $kc, $nc, $ec, v_of(&(&a).into_iter()));
        vrow!(fl, "yielded-edge", $kc, $nc, $ec, v_of_opt(&a.iter().next()));
        vrow!(fl, "found-node", $kc, $nc, $ec, v_of_opt(&a.find_adjacent(b.key())));
        vrow!(fl, "node-vec", $kc, $nc, $ec, v_of(&a.order().pre().search_nodes()));
    }};
}

macro_rules! vrows {
    ($k:expr, $n:expr, $e:expr, $kc:expr, $nc:expr, $ec:expr) => {
        vrows_directed!(sync_digraph, $k, $n, $e, $kc, $nc, $ec);
        vrows_directed!(digraph, $k, $n, $e, $kc, $nc, $ec);
        vrows_undirected!(sync_ungraph, $k, $n, $e, $kc, $nc, $ec);
        vrows_undirected!(ungraph, $k, $n, $e, $kc, $nc, $ec);
    };
}

fn value_probes() {
    let g = || B0(1, 0);
    vrows!(g(), g(), g(), 0, 0, 0);
    vrows!(g(), g(), B1(1, Cell::new(0)), 0, 0, 1);
    vrows!(g(), g(), B2(1, RawSync(std::ptr::null())), 0, 0, 2);
    vrows!(g(), g(), B3(1, std::ptr::null()), 0, 0, 3);
    vrows!(g(), B1(1, Cell::new(0)), g(), 0, 1, 0);
    vrows!(g(), B2(1, RawSync(std::ptr::null())), g(), 0, 2, 0);
    vrows!(g(), B3(1, std::ptr::null()), g(), 0, 3, 0);
    vrows!(B1(1, Cell::new(0)), g(), g(), 1, 0, 0);
    vrows!(B2(1, RawSync(std::ptr::null())), g(), g(), 2, 0, 0);
    vrows!(B3(1, std::ptr::null()), g(), g(), 3, 0, 0);
}

fn main() {
    // sanity of the witnesses themselves
    println!("WIT A {} {} {} {} {} {} {} {}", <W<A0>>::SEND, <W<A0>>::SYNC, <W<A1>>::SEND, <W<A1>>::SYNC, <W<A2>>::SEND, <W<A2>>::SYNC, <W<A3>>::SEND, <W<A3>>::SYNC);
    println!("WIT B {} {} {} {} {} {} {} {}", <W<B0>>::SEND, <W<B0>>::SYNC, <W<B1>>::SEND, <W<B1>>::SYNC, <W<B2>>::SEND, <W<B2>>::SYNC, <W<B3>>::SEND, <W<B3>>::SYNC);
    k_loop!("A", A0, A1, A2, A3);
    k_loop!("B", B0, B1, B2, B3);
    value_probes();
    let _ = generic_positive::<u8, u8, u8>;
    println!("GENERIC-POSITIVE ok");
}
