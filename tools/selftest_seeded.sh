#!/bin/bash
# Developer tool: apply every seeded change in turn to /repo, run the quick check of the
# property it was written against, record whether it raises a VIOLATION, restore /repo.
# Writes seeded/RESULTS.md. The repository (GDSL_REPO, default /repo) must be clean; run it from a
# snapshot copy of /verif and a clone of /repo to keep the live trees free.
V="$(cd "$(dirname "${BASH_SOURCE[0]}")/.." && pwd)"
R="${GDSL_REPO:-/repo}"
export GDSL_REPO="$R"
cd "$V"
if [ -n "$(git -C $R status --porcelain --untracked-files=no)" ]; then echo "$R is not clean"; exit 2; fi
OUT=seeded/RESULTS.md
echo "# Seeded changes vs. the quick check of their target property" > $OUT
echo "" >> $OUT
echo "(written by tools/selftest_seeded.sh on $(date -u +%Y-%m-%dT%H:%MZ), harness commit $(git rev-parse --short HEAD), repo commit $(git -C $R rev-parse --short HEAD))" >> $OUT
echo "" >> $OUT
echo "| seeded change | target | exit | violations | first class |" >> $OUT
echo "|---|---|---|---|---|" >> $OUT
miss=0
for d in seeded/C*/; do
    name=$(basename $d)
    prop=${name%%-*}
    git -C $R apply $V/$d/patch.diff || { echo "| $name | $prop | patch does not apply | | |" >> $OUT; miss=$((miss+1)); continue; }
    out=$(./check $prop --tier quick 2>&1); rc=$?
    nv=$(echo "$out" | grep -c "^VIOLATION")
    first=$(echo "$out" | grep "class=" | head -1 | sed 's/^ *//')
    echo "| $name | $prop | $rc | $nv | $first |" >> $OUT
    echo "$name $prop exit=$rc violations=$nv"
    [ $rc -eq 1 ] || miss=$((miss+1))
    git -C $R checkout -- .; git -C $R clean -fdq -- src tests
done
echo "" >> $OUT
echo "not detected by the target check: $miss" >> $OUT
./check --setup >/dev/null
echo "missed: $miss"
