import json,os,glob
props={}
for l in open('/verif/properties.jsonl'):
    d=json.loads(l); props[d['id']]=d
used={}
for m in sorted(glob.glob('/verif/seeded/C*/meta.json'))+sorted(glob.glob('/verif/seeded/_out_of_scope/*/meta.json')):
    j=json.load(open(m)); p=j['name'].split('-')[0]
    used.setdefault(p,[]).append("- %s (needed: %s)"%(j.get('change',''),j.get('needs_to_manifest','')))
T='''# Task: write a property-breaking change ("seeded defect") for the Rust library in this directory

You are working in `{wt}`, a scratch git worktree of the graph library `gdsl`
(Rust; four parallel flavours `digraph`, `sync_digraph`, `ungraph`, `sync_ungraph` under `src/`).
Work ONLY inside this directory. Do not read or write anything under /repo or /verif (they are off limits;
what you write must be independent of them). No network. Use
`export CARGO_TARGET_DIR={wt}/target CARGO_NET_OFFLINE=true` for every cargo command.

## The property (this is all you are told about what the library should guarantee)

**{id} - {title}**

{statement}

Scope of the quantifier: {q}

## What to produce

A *realistic* change to the library source (the kind of slip a maintainer could make in a refactor,
optimisation or feature addition - plausible-looking code, no comments that give it away, no dead
giveaway names) such that:

1. the crate still compiles without new warnings being errors, and the existing test suite still passes
   completely: `cargo test --offline --tests` must report 80 passed / 0 failed over the three test
   binaries (`digraph_tests`, `ungraph_tests`, `mod`); do not edit the existing tests;
2. the property above is violated by the changed library;
3. the violation needs **something specific to manifest** - a particular multi-step sequence of operations,
   an unusual input shape or value, a particular interleaving or order, a particular API entry point or
   builder-call order, hidden state carried from one call to a later one, or two cooperating sites that
   each look fine alone. It must NOT be exposed by ordinary simple use (a 2-3 node graph with one call);
   subtle is better than loud. It should still be a clear violation of the property *as stated* (not of
   some stronger property you would like to hold) - re-read the statement and check your demonstration
   against its exact wording, including its preconditions;
4. a demonstration: a new integration test file `tests/demo_{id}.rs` (one `#[test]`) that **fails with
   your change and passes without it** (verify both with `git diff -- src > /tmp/r9/{id}/x.diff; git checkout -- src; ...; git apply /tmp/r9/{id}/x.diff`. NEVER use `git stash`: the stash is shared with other worktrees of this repository and you would swap changes with someone else).
   The demonstration may only use the public API.

The following mechanisms have ALREADY been used by earlier rounds for this property. Do not reuse them or
close variants of them; find a different mechanism, a different code site, or a different kind of
triggering condition (think about: size thresholds, capacity growth, hidden caches, reuse of objects,
API entry points with their own code paths, builder-call order, value-dependent behaviour, iterator
protocol details (`size_hint`, `nth`, `rev`, `collect`, `Extend`), `Clone`/`Drop`/`Deref`/`Index` impls, error
paths, the less-used flavours, interactions between two features):

{used}

Across ALL properties the following ideas are already worn out, so do not use them for this property either: a small inline set / buffer that loses an element when it spills at 16 or 32 entries; using the hash of a key (or a Bloom bit) as the key's identity; a cache validated by an element count; an iterator that snapshots or buffers the adjacency list, or keeps a lock / borrow across the loop body; `visited.insert` moved before the filter; `swap_remove` / choosing the wrong one of several parallel edges; state left inside a search object between two calls; a fast path for the empty / single-element case that skips a callback.

## Deliverables (all inside `{wt}`)

* `PATCH.diff` - output of `git diff -- src` with your change applied (library source only; the demo
  test must NOT be part of it);
* `tests/demo_{id}.rs` - the demonstration;
* `NOTES.md` - what the change is, which file/function, why it looks plausible, exactly what is needed
  for it to manifest, and the commands you ran with their results (80/80 with the change; demo fails
  with / passes without).

Leave the worktree with your change applied. Finish by replying with a 5-10 line summary.
'''
for pid,d in props.items():
    n=pid[1:]
    wt='/tmp/r9/'+pid
    s=T.format(wt=wt,id=pid,title=d['title'],statement=d['statement'],q=d['quantifier']['text'],used="\n".join(used.get(pid,[])))
    open(wt+'/TASK.md','w').write(s)
print('ok')
