#!/bin/bash
# developer tool: thorough tier of the given properties, in the given order
./check --setup
for p in "$@"; do
  /usr/bin/time -f "$p took %es" ./check $p --tier thorough 2>&1 | grep -E "^C[0-9]+ \[|^OK|^VIOLATION|machinery|took|flavour=" | cut -c1-220
done
