#!/usr/bin/env python3
"""Developer tool (never run by a check): turns the pairwise (2 threads x 1 call) C17
violations of a check run into `open` entries of known_findings.json after review."""
import json, re, sys
txt = open(sys.argv[1]).read().splitlines()
kf = json.load(open('/verif/known_findings.json'))
have = {(f['property'], f['flavour'], f['class']) for f in kf['findings']}
added = 0
for i, l in enumerate(txt):
    m = re.match(r'\s+flavour=(\S+) class=(.*)$', l)
    if not m or 'larger:' in l:
        continue
    fl, cls = m.group(1), m.group(2)
    detail = txt[i + 1].strip()
    detail = detail[:420]
    key = ('C17', fl, cls)
    if key in have:
        continue
    have.add(key)
    kf['findings'].append({
        "property": "C17", "flavour": fl, "class": cls, "status": "open",
        "witness": detail,
        "note": "two-node mutations (connect / try_connect / disconnect / isolate) update the two endpoints under separate lock acquisitions, so concurrent mutators on a shared node interleave between the halves; repairing it needs a locking discipline (ordered acquisition of all involved node locks), not a small patch",
    })
    added += 1
json.dump(kf, open('/verif/known_findings.json', 'w'), indent=1)
print("added", added)
