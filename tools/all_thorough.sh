#!/bin/bash
./check --setup
for p in C01 C02 C03 C04 C05 C06 C07 C08 C09 C10 C11 C12 C13 C14 C15 C16 C17 C18 C19 C20; do
  /usr/bin/time -f "$p took %es" ./check $p --tier thorough 2>&1 | grep -E "^C[0-9]+ \[|^OK|^VIOLATION|machinery|took|flavour=" | cut -c1-220
done
