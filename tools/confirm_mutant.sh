#!/bin/bash
# Developer tool: confirm a seeded change in a scratch worktree of /repo's HEAD:
#   1. it applies and the 80 baseline tests pass with it,
#   2. its demonstration fails with it,
#   3. the demonstration passes without it.
# usage: tools/confirm_mutant.sh <name> <dir containing PATCH.diff and tests/demo_*.rs>
set -u
NAME="$1"; SRC="$2"
WT=/tmp/wt-verify
export CARGO_TARGET_DIR=/tmp/wt-verify-target CARGO_NET_OFFLINE=true
git -C /repo worktree remove --force $WT >/dev/null 2>&1
git -C /repo worktree add --detach $WT HEAD >/dev/null 2>&1 || { echo "cannot create worktree"; exit 2; }
cd $WT
DEMO=$(ls $SRC/tests/demo_*.rs | head -1)
DEMONAME=$(basename $DEMO .rs)
cp $DEMO tests/
git apply $SRC/PATCH.diff || { echo "RESULT $NAME: patch does not apply"; git -C /repo worktree remove --force $WT; exit 1; }
base=$(cargo test --offline --test digraph_tests --test ungraph_tests --test mod 2>&1 | grep -E "^test result" | awk '{p+=$4; f+=$6} END {print p" passed "f" failed"}')
with=$(cargo test --offline --test $DEMONAME 2>&1 | grep -E "^test result" | head -1)
git checkout -- src
without=$(cargo test --offline --test $DEMONAME 2>&1 | grep -E "^test result" | head -1)
echo "RESULT $NAME: baseline-with-change: $base | demo-with-change: $with | demo-without: $without"
cd /; git -C /repo worktree remove --force $WT
