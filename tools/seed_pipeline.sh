#!/bin/bash
# usage: run.sh <round-dir> <ids...>   ; uses snapshot /tmp/r8pipe/verif (git worktree of /verif HEAD) and clone /tmp/r8pipe/repo
RD=$1; shift
SNAP=/tmp/r8pipe/verif
REPO=/tmp/r8pipe/repo
export GDSL_REPO=$REPO
for id in "$@"; do
  src=$RD/$id
  [ -f $src/PATCH.diff ] || { echo "$id: no PATCH.diff" >> $RD/results.txt; continue; }
  conf=$(/verif/tools/confirm_mutant.sh $id $src 2>&1 | grep "^RESULT")
  echo "$conf" >> $RD/results.txt
  cd $SNAP
  res=$(tools/try_mutant.sh $src/PATCH.diff ${TARGETS:-$id} 2>&1 | tr '\n' ' ')
  echo "TRY $id: $res" >> $RD/results.txt
done
echo DONE >> $RD/results.txt
