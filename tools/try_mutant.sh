#!/bin/bash
# Developer tool: apply a seeded change to /repo, run the quick checks of the given
# properties (default: all), print which raise a VIOLATION, and undo the change.
#   tools/try_mutant.sh <patch.diff> [Cxx ...]
# /repo must be clean (committed) before; it is restored with `git checkout -- .`.
set -u
PATCH="$1"; shift
PROPS="${*:-C01 C02 C03 C04 C05 C06 C07 C08 C09 C10 C11 C12 C13 C14 C15 C16 C17 C18 C19 C20}"
V="$(cd "$(dirname "${BASH_SOURCE[0]}")/.." && pwd)"
R="${GDSL_REPO:-/repo}"
export GDSL_REPO="$R"
cd "$V"
if [ -n "$(git -C $R status --porcelain --untracked-files=no)" ]; then echo "$R is not clean"; exit 2; fi
git -C $R apply "$PATCH" || { echo "patch does not apply"; exit 2; }
TIER="${TIER:-quick}"
for p in $PROPS; do
    out=$(./check $p --tier $TIER 2>&1); rc=$?
    nv=$(echo "$out" | grep -c "^VIOLATION")
    first=$(echo "$out" | grep -A1 "^VIOLATION" | grep "class=" | head -3 | sed 's/^ *//' | tr '\n' ';')
    echo "$p exit=$rc violations=$nv $first"
    if [ $rc -eq 2 ]; then echo "$out" | grep -i "machinery" | head -3; fi
done
git -C $R checkout -- .; git -C $R clean -fdq -- src tests
git -C $R status --porcelain --untracked-files=no | head -3
